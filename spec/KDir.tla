-------------------------------- MODULE KDir --------------------------------
(***************************************************************************)
(* L0 vocabulary shared by the single-server directory modules              *)
(* (KMemberOf C17, KRefint C16, KDynGroup C18, KSpn C22, KRecycle C26):     *)
(* readers for the projected state `st` the dirsrv history driver logs      *)
(* after every commit.                                                      *)
(*                                                                         *)
(*   st = [dom, domattr, now, e, lvx, vis, rvis, spnx, refx]                *)
(*   st.e[id] = [lv, k, acct, isg, mdl, cl, n, spn, refs, cd, f, av, lm]    *)
(*     lv   liveness class  "live" | "recycled" | "tombstone" | "conflict"   *)
(*     k    kind "grp" "dyn" "usr" "svc" "cert" "oa2" "dom" "oth"          *)
(*     mdl  id is in the driver's model range; cl: all of its ancestors     *)
(*          (holders through member/dynmember) are projected as well        *)
(*     refs [attr -> sequence of ids] every reference-typed attribute       *)
(*     cd   cascade_deleted back pointer (sequence of 0 or 1 id)            *)
(*     f    dyngroup filter tree [t, a, v, s]; av: candidate attributes     *)
(*   st.lvx[id]  liveness of referenced ids that are not in st.e            *)
(***************************************************************************)
EXTENDS Naturals, Sequences, FiniteSets, TLC

Range(s) == {s[i] : i \in DOMAIN s}

Ids(st)      == DOMAIN st.e
Refs(st, x, a) == IF a \in DOMAIN st.e[x].refs THEN Range(st.e[x].refs[a]) ELSE {}
\* model ids are short ("e12"); everything else is a uuid string of a built-in entry
IsModelId(x) == Len(x) < 12
\* liveness of any id: projected entry, looked-up reference target, else: a model id that is not stored
\* is absent, a built-in id that is neither projected nor referenced is simply not observed
Lv(st, x)    == IF x \in DOMAIN st.e THEN st.e[x].lv
                ELSE IF x \in DOMAIN st.lvx THEN st.lvx[x]
                ELSE IF IsModelId(x) THEN "absent" ELSE "unknown"
IsLive(st, x) == Lv(st, x) = "live"
LiveIds(st)  == {x \in Ids(st) : st.e[x].lv = "live"}
ModelIds(st) == {x \in Ids(st) : st.e[x].mdl}
Member(st, g)    == Refs(st, g, "member")
DynMember(st, g) == Refs(st, g, "dynmember")
Mo(st, x)    == Refs(st, x, "memberof")
Dmo(st, x)   == Refs(st, x, "directmemberof")
Rdmo(st, x)  == Refs(st, x, "recycled_directmemberof")
=============================================================================
