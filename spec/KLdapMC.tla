------------------------------ MODULE KLdapMC ------------------------------
(* Exhaustive check of the implementation-shaped connection machine (L2 of KLdap: bind decision
   table, do_op dispatch with kanidmd_core's session handling, do_search request mapping and
   Entry::to_ldap on an abstract directory) against the L1 clauses of C40, over
   bind kinds x secrets x domain flag x linked-group membership x has-password x account-exists
   and all operation sequences up to MaxDepth.

   `obs` is the observation record of the last operation, in the shape of the driver's trace
   lines, so the SAME L1 predicates judge the model here and the real code in KLdapTrace.        *)
EXTENDS KLdap
CONSTANTS MaxDepth, ReqPool

VARIABLES flag,     \* domain entry ldap_allow_unix_pw_bind: "on" | "off" | "unset"
          mem,      \* the target account is (transitively) a member of the application's linked group
          cn,       \* connection: [k: how the token was obtained, s: session variant, u: account]
          db,       \* abstract database version (only harness administration bumps it)
          obs,      \* last observation
          n
vars == <<flag, mem, cn, db, obs, n>>

\* attribute requests of the model (cfg: ReqPool <- MCReqPool)
MCReqSmall == << <<>>, <<"+">>, <<"1.1">>, <<"cn", "uid", "entryuuid">>, <<"mail", "mail;primary", "dn">>,
                 <<"objectclass", "uidnumber", "gecos", "homedirectory">>, [i \in 1..MaxQueryAttrs |-> "x"] >>
MCReqPool == << <<>>, <<"*">>, <<"+">>, <<"1.1">>, <<"cn", "uid", "entryuuid">>, <<"name", "class", "uuid">>, <<"dn">>,
                <<"mail", "mail;primary", "emailalternative">>, <<"objectclass", "uidnumber", "gecos", "homedirectory">>,
                <<"*", "cn", "homedirectory">>, <<"1.1", "name">>, <<"displayname", "nosuchattr">>,
                [i \in 1..MaxQueryAttrs |-> "x"] >>

Unbound == [k |-> "none", s |-> "none", u |-> ""]
NoObs   == [a |-> "reset", dg |-> 0]

\* ---- abstract directory: a person, the domain entry, a schema entry, an access control profile
Dir == << [dn |-> "p", u |-> "e1", c |-> <<"object", "person", "account">>,
           has |-> {"class", "name", "uuid", "displayname", "mail", "gidnumber"}],
          [dn |-> "d", u |-> DomainUuid, c |-> <<"object", "domain_info">>,
           has |-> {"class", "name", "uuid", "domain_name"}],
          [dn |-> "s", u |-> "e41", c |-> <<"object", "attributetype">>,
           has |-> {"class", "attributename", "uuid"}],
          [dn |-> "a", u |-> "e50", c |-> <<"object", "access_control_profile">>,
           has |-> {"class", "name", "uuid"}] >>
\* attributes the access controls let an identity read on an entry (anonymous-level vs a privileged token)
Allowed(id, e) ==
  IF id = AnonUuid
  THEN CASE e.dn = "p" -> {"class", "name", "uuid", "displayname", "gidnumber"}
         [] e.dn = "d" -> {"class", "name", "uuid", "domain_name"}
         [] OTHER      -> {}
  ELSE e.has

RECURSIVE SetToSeq(_)
SetToSeq(S) == IF S = {} THEN <<>> ELSE LET x == CHOOSE y \in S : TRUE IN <<x>> \o SetToSeq(S \ {x})

\* search_ext for identity id with the mapped request: visible entries with their reduced attributes.
\* The test filter is (objectclass=*): the entry must let the identity read `class` (filter_entries), and
\* at least one access control must relate to the requested attributes (search_related_acp).
Reduced(id, e, req) == IF L2KAll(req) THEN Allowed(id, e) ELSE Allowed(id, e) \cap L2KReq(req)
Native(id, req) ==
  SelectSeq([i \in DOMAIN Dir |-> [dn |-> Dir[i].dn, u |-> Dir[i].u, c |-> Dir[i].c,
                                   at |-> SetToSeq(Reduced(id, Dir[i], req)),
                                   vis |-> "class" \in Allowed(id, Dir[i])
                                           /\ (L2KAll(req) \/ Allowed(id, Dir[i]) \cap L2KReq(req) # {})]],
            LAMBDA e : e.vis)
\* do_search: native + hidden-class term + scope term, then Entry::to_ldap
InScope(e, scp) == CASE scp = "sub" -> TRUE [] scp = "one" -> e.u # DomainUuid [] OTHER -> e.u = DomainUuid
Ldap(id, req, scp) ==
  LET nat == SelectSeq(Native(id, req), LAMBDA e : ~IsHidden(e) /\ InScope(e, scp))
  IN  [i \in DOMAIN nat |-> [dn |-> nat[i].dn, at |-> SetToSeq(L2ToLdap(req, Range(nat[i].at)))]]

\* constant-level tables (TLC evaluates them once): every identity x request x scope
Ids     == {AnonUuid, "acct"}
Scopes  == {"sub", "one", "base"}
NativeT == [id \in Ids |-> [ri \in DOMAIN ReqPool |-> Native(id, ReqPool[ri])]]
LdapT   == [id \in Ids |-> [ri \in DOMAIN ReqPool |-> [scp \in Scopes |-> Ldap(id, ReqPool[ri], scp)]]]
KReqT   == [ri \in DOMAIN ReqPool |-> SetToSeq(L2KReq(ReqPool[ri]))]

Ident(c) == L2Ident(c.s, c.u)
OpCommon == [dg0 |-> db, dg1 |-> db, dl |-> 0, tk |-> cn.s, tu |-> cn.u]
Step     == n < MaxDepth /\ n' = n + 1

\* ---- bind: one action per outcome (so that -coverage shows every outcome is reachable)
Kinds   == {"anon", "anonname", "tok", "unix", "app", "bad"}
SecsOf(k) == CASE k = "anon" -> {"empty"}
               [] k = "tok"  -> {"right", "wrong", "empty", "expired"}
               [] OTHER      -> {"right", "wrong", "empty"}
BindInput(k, sec, hpw, ex, uat) ==
  /\ sec \in SecsOf(k)
  /\ (k \in PwKinds /\ sec = "right") => hpw             \* a right secret exists only if there is a password
  /\ k \notin PwKinds => (hpw = FALSE /\ ex = TRUE)
  /\ ~ex => ~hpw                                         \* an unknown account / application has no password
  /\ k # "tok" => uat = FALSE
  /\ k = "anonname" => sec # "right"
  /\ k = "bad" => sec # "right"
BindRec(k, sec, hpw, ex, uat) ==
  [a |-> "bind", k |-> k, sec |-> sec, flag |-> flag, mem |-> (k = "app" /\ ex /\ mem), hpw |-> hpw, ex |-> ex,
   ac |-> "acct", tokuat |-> uat]
\* constant-level: the legal bind inputs (evaluated once)
BindInputs == {i \in Kinds \X {"right", "wrong", "empty", "expired"} \X BOOLEAN \X BOOLEAN \X BOOLEAN :
                 BindInput(i[1], i[2], i[3], i[4], i[5])}
Bind(outcome) ==
  \E i \in BindInputs :
    /\ LET k == i[1]  sec == i[2]  hpw == i[3]  ex == i[4]  uat == i[5]
           r0  == BindRec(k, sec, hpw, ex, uat)
           res == L2BindRes(r0)
           ses == L2NewSession(r0)
           c2  == IF res = "bound" THEN [k |-> k, s |-> ses[1], u |-> ses[2]] ELSE cn
       IN  /\ res = outcome
           /\ Step
           /\ cn' = c2
           /\ obs' = r0 @@ OpCommon @@
                     [res |-> res, ns |-> c2.s, nu |-> c2.u,
                      eid |-> IF res = "bound" THEN Ident(c2) ELSE "",
                      sc |-> IF res = "bound" THEN (IF k = "tok" /\ ~uat THEN "rw" ELSE "ro") ELSE ""]
    /\ UNCHANGED <<flag, mem, db>>
BindBound   == n < MaxDepth /\ Bind("bound")
BindInvalid == n < MaxDepth /\ Bind("invalid")
BindErr     == n < MaxDepth /\ Bind("err")

\* ---- search / compare (auto-bind anonymously when the connection has no token)
SearchOn(c, auto) ==
  \E ri \in DOMAIN ReqPool, scp \in Scopes :
    LET req == ReqPool[ri]
        id  == Ident(c)
        toomany == Len(req) >= MaxQueryAttrs
    IN  /\ Step
        /\ cn' = IF auto /\ ~toomany THEN c ELSE cn
        /\ obs' = OpCommon @@
                  [a |-> "search", bk |-> "dom", scp |-> scp, req |-> req, kall |-> L2KAll(req),
                   kreq |-> KReqT[ri], ab |-> (auto /\ ~toomany),
                   res |-> IF toomany THEN "err" ELSE "ok",
                   ents |-> IF toomany THEN <<>> ELSE LdapT[id][ri][scp],
                   eid |-> id, sc |-> "ro",
                   nres |-> "ok", nat |-> NativeT[id][ri],
                   ares |-> IF toomany THEN "err" ELSE "ok",
                   anon |-> IF toomany THEN <<>> ELSE LdapT[AnonUuid][ri][scp]]
        /\ UNCHANGED <<flag, mem, db>>
SearchBound == cn.s # "none" /\ SearchOn(cn, FALSE)
SearchAuto  == cn.s = "none" /\ SearchOn([k |-> "auto", s |-> "unix", u |-> AnonUuid], TRUE)

\* compare of an attribute value on the person entry: true iff the identity may read that attribute
CompareOn(c, auto) ==
  \E at \in {"name", "mail", "nosuchattr"}, tgt \in {"p", "x"} :
    LET val(id) == IF tgt = "x" THEN "nosuch"
                   ELSE IF at \in Allowed(id, Dir[1]) THEN "true" ELSE "false"
    IN  /\ Step
        /\ cn' = IF auto THEN c ELSE cn
        /\ obs' = OpCommon @@ [a |-> "compare", ab |-> auto, res |-> val(Ident(c)), ares |-> val(AnonUuid)]
        /\ UNCHANGED <<flag, mem, db>>
CompareBound == cn.s # "none" /\ CompareOn(cn, FALSE)
CompareAuto  == cn.s = "none" /\ CompareOn([k |-> "auto", s |-> "unix", u |-> AnonUuid], TRUE)

WhoamiBound   == cn.s # "none" /\ Step /\ obs' = OpCommon @@ [a |-> "whoami", res |-> "ok"] /\ UNCHANGED <<flag, mem, db, cn>>
WhoamiUnbound == cn.s = "none" /\ Step /\ obs' = OpCommon @@ [a |-> "whoami", res |-> "operr"] /\ UNCHANGED <<flag, mem, db, cn>>
Unbind        == Step /\ cn' = Unbound /\ obs' = OpCommon @@ [a |-> "unbind", res |-> "closed"] /\ UNCHANGED <<flag, mem, db>>
\* a protocol write operation: ServerOps has no variant for it, it never reaches the server
WriteOp       == Step /\ obs' = OpCommon @@ [a |-> "wop", res |-> "noserverop"] /\ UNCHANGED <<flag, mem, db, cn>>

\* ---- harness administration (not LDAP): changes the database, the connection keeps its session
CfgFlag == \E v \in {"on", "off"} : v # flag /\ Step /\ flag' = v /\ db' = db + 1
                                     /\ obs' = [a |-> "cfg", dg |-> db + 1, res |-> "ok"] /\ UNCHANGED <<mem, cn>>
CfgMem  == Step /\ mem' = ~mem /\ db' = db + 1 /\ obs' = [a |-> "cfg", dg |-> db + 1, res |-> "ok"] /\ UNCHANGED <<flag, cn>>

Init == /\ flag \in {"on", "off", "unset"} /\ mem \in BOOLEAN /\ cn = Unbound /\ db = 0 /\ obs = NoObs /\ n = 0
Next == \/ BindBound \/ BindInvalid \/ BindErr \/ SearchBound \/ SearchAuto \/ CompareBound \/ CompareAuto
        \/ WhoamiBound \/ WhoamiUnbound \/ Unbind \/ WriteOp \/ CfgFlag \/ CfgMem
Spec == Init /\ [][Next]_vars

\* ---- L1 on every reachable observation; cb = how the token in hand BEFORE the operation was obtained
\* is recorded by the actions through tk/tu; the kind is needed too: keep it in obs-free form via prevK.
IsOp(r) == r.a \in {"bind", "search", "compare", "whoami", "unbind", "wop"}
\* the kind of the connection before the step is not in the state after it; L1 clauses that need it are
\* therefore checked as an action property (L1Step) and the rest as a state invariant (L1Inv).
L1Inv ==
  /\ IsOp(obs) => L1DbOp(obs)
  /\ obs.a = "bind" => L1PwBindAnon(obs) /\ L1UnixFlag(obs) /\ L1AppMember(obs)
  /\ obs.a = "search" => L1SearchEntries(obs) /\ L1SearchAttrs(obs)
L1StepOk ==
  /\ IsOp(obs') => L1DbChain(obs', obs)
  /\ obs'.a = "search" => L1PwSearchIdent(obs', cn.k) /\ L1PwSearchReads(obs', cn.k)
  /\ obs'.a = "compare" => L1PwCompare(obs', cn.k)
L1Step == [][L1StepOk]_vars

\* the model's bind case space, printed so the orchestrator can check the driver covered all of it
BindCases ==
  {<<k, sec, f, m, hpw, ex>> \in Kinds \X {"right", "wrong", "empty", "expired"} \X {"on", "off", "unset"} \X BOOLEAN \X BOOLEAN \X BOOLEAN :
     /\ \E uat \in BOOLEAN : BindInput(k, sec, hpw, ex, uat)
     /\ (k # "app" \/ ~ex) => m = FALSE}
CaseRes(c) == L2BindRes([k |-> c[1], sec |-> c[2], flag |-> c[3], mem |-> c[4], hpw |-> c[5], ex |-> c[6], ac |-> "acct"])
B2S(b) == IF b THEN "T" ELSE "F"
ASSUME \A c \in BindCases : PrintT(<<"CASE", c[1], c[2], c[3], B2S(c[4]), B2S(c[5]), B2S(c[6]), CaseRes(c)>>)
=============================================================================
