---------------------------- MODULE KAuthPrivTrace ----------------------------
(* C33: validates observed uses / re-authentications of tokens on a REAL IdmServer (driver
   `kv-token priv`).  L1 = KAuthTokens!L1Scope with the documented maximum of a privilege window
   (PrivMax = 3600 s) and L1ReauthExpiry; L2 = the exact scope rules (drift only). *)
EXTENDS KAuthTokens, Json, IOUtils
CONSTANTS PrivMax, LimExp
Rec == ndJsonDeserialize(IOEnv.TRACE)
VARIABLE l

\* the scope the transcription predicts, "none" when the bearer is rejected
L2Use(r) ==
  IF r.res # "ok" THEN "none" ELSE L2Scope(r, r.sessexp, r.privexp, LimExp)

Why(r) == IF r.login = "apirw" THEN "x"
          ELSE IF r.login \in AlwaysRO THEN "always-ro-type"
          ELSE IF ~(r.at <= r.t /\ r.t < r.at + PrivMax) THEN "outside-window"
          ELSE IF r.issue = "reauth_ro" THEN "verify-only-reauth"
          ELSE "unprivileged-login"

JudgeLine(r) ==
  CASE r.a = "use" ->
         /\ (L1Scope(r, PrivMax) \/ PrintT(<<"L1FAIL", "C33", l, "rw-" \o Why(r) \o " login=" \o r.login>>))
         /\ ((r.res # "ok" \/ r.scope = L2Use(r)) \/ PrintT(<<"L2DRIFT", "C33", l>>))
    [] r.a = "reauth" /\ r.res = "ok" ->
         /\ (L1ReauthExpiry(r.oldexp, r.newexp, r.sx_before, r.sx_after)
               \/ PrintT(<<"L1FAIL", "C33", l, "reauth-extends-expiry login=" \o r.login>>))
         /\ (r.newexp = r.oldexp \/ PrintT(<<"L2DRIFT", "C33", l>>))
    [] OTHER -> TRUE

Init == l = 1
Next == l <= Len(Rec) /\ l' = l + 1
Spec == Init /\ [][Next]_l
Judge == l <= Len(Rec) => JudgeLine(Rec[l])
Consumed == TLCGet("stats").distinct = Len(Rec) + 1 \/ PrintT(<<"NOTCONSUMED", TLCGet("stats").distinct, Len(Rec)>>)
=============================================================================
