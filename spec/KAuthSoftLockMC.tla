--------------------------- MODULE KAuthSoftLockMC ---------------------------
(* Exhaustive exploration of the soft-lock transcription (L2) against the property (L1) with
   scaled constants: all sequences of time steps (with/without an admin expiry), raw recorded
   failures and protocol attempts (right / wrong credential) over the time grid 0..TMax.
   L1 is an action property: it is checked on EVERY transition (TLC checks implied actions also
   for successors already seen).  The per-window failure bound is a state invariant over a
   history counter.                                                                          *)
EXTENDS KAuthSoftLock, TLC
CONSTANTS W, Th, Dl,       \* the policy under test (scaled)
          TMax, NMax,      \* time grid, bound on the failure count explored
          Exps             \* admin expiry times tried
P == [w |-> W, th |-> Th, dl |-> Dl]
\* scaled policies (cfg: Th <- ThPw ...): password-like 1s,1s,2s then cap at 4; totp-like cap at 3
ThPw == <<2, 3, 4>>
DlPw == <<1, 1, 2>>
ThTotp == <<3>>
DlTotp == <<1>>

VARIABLES st,    \* lock state (L0)
          now,   \* time of the last event
          ev,    \* last event [e, ct, exp, res, wrong]
          wc,    \* [w |-> window end, c |-> failed checks recorded by attempts in that window]
          free   \* TRUE while neither a raw failure nor an admin expiry occurred (bound is claimed)
vars == <<st, now, ev, wc, free>>

NoEv == [e |-> "none", ct |-> 0, exp |-> None, res |-> "", wrong |-> 0]
Init == st = Init0 /\ now = 0 /\ ev = NoEv /\ wc = [w |-> 0, c |-> 0] /\ free = TRUE

Bump(ct) == IF wc.w = WindowEnd(P, ct) THEN [wc EXCEPT !.c = @ + 1] ELSE [w |-> WindowEnd(P, ct), c |-> 1]

TimeStep(ct, exp) ==
  /\ st' = L2Time(st, ct, exp)
  /\ ev' = [e |-> "time", ct |-> ct, exp |-> exp, res |-> "", wrong |-> 0]
  /\ free' = (free /\ exp = None) /\ wc' = IF free' THEN wc ELSE [w |-> 0, c |-> 0]
RawFail(ct) ==
  /\ st' = L2Fail(P, st, ct)
  /\ ev' = [e |-> "fail", ct |-> ct, exp |-> None, res |-> "", wrong |-> 0]
  /\ wc' = [w |-> 0, c |-> 0] /\ free' = FALSE
Attempt(ct, exp, wrong) ==
  LET a == L2Attempt(P, st, ct, exp, wrong) IN
  /\ st' = a[2]
  /\ ev' = [e |-> "attempt", ct |-> ct, exp |-> exp, res |-> a[1], wrong |-> wrong]
  /\ free' = (free /\ exp = None)
  /\ wc' = IF ~free' THEN [w |-> 0, c |-> 0] ELSE IF a[1] = "fail" THEN Bump(ct) ELSE wc

Next == \E ct \in now..TMax :
          /\ now' = ct
          /\ \/ \E exp \in Exps \cup {None} : TimeStep(ct, exp)
             \/ RawFail(ct)
             \/ \E exp \in Exps \cup {None}, wrong \in {0, 1} : Attempt(ct, exp, wrong)
Spec == Init /\ [][Next]_vars
Bound == CountOf(st) <= NMax

\* ---- L1 on the transition just taken
L1Step ==
  CASE ev'.e = "time"    -> TimeLike(st, ev'.ct, ev'.exp, st')
    [] ev'.e = "fail"    -> FailRaw(P, st, ev'.ct, st')
    [] ev'.e = "attempt" -> L1Attempt(P, st, ev'.ct, ev'.exp, ev'.res, ev'.wrong, st')
    [] OTHER             -> TRUE
L1Action == [][L1Step]_vars
\* is_valid is exactly "not locked" (what the server asks)
\* without admin intervention at most MaxFail failed checks per window
WindowBound == free => wc.c <= MaxFail(P)

\* vacuity guards (each must be VIOLATED when checked alone)
ReachCap      == ~(st.k = "locked" /\ st.n >= MaxFail(P) /\ st.u = st.r)
ReachAdminCut == ~(ev.e = "time" /\ ev.exp # None /\ st.k = "init" /\ ev.ct <= ev.exp + W)
ReachUnlocked == ~(st.k = "unlocked" /\ st.n >= 2)
ReachFullWin  == ~(free /\ wc.c = MaxFail(P))
=============================================================================
