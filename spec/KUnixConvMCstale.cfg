CONSTANTS
  MaxEnv = 3
  FirstInit = TRUE
  Emit = FALSE
INIT Init
NEXT Next
INVARIANT StaleOpen

CHECK_DEADLOCK FALSE
