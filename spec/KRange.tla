------------------------------- MODULE KRange -------------------------------
(***************************************************************************)
(* Replication range comparison (property C10).                            *)
(*                                                                         *)
(* A window map is a function from a set of server ids to records          *)
(* [min |-> t, max |-> t]: for each origin server, the oldest and newest   *)
(* change timestamp a replica holds.  Absent server = never seen.          *)
(*                                                                         *)
(* L0  vocabulary:   window maps, result record                            *)
(* L1  the property: decision table written as set comprehensions          *)
(* L2  transcription of ReplicationUpdateVector::range_diff (ruv.rs)       *)
(***************************************************************************)
EXTENDS Naturals, FiniteSets, TLC

\* ----------------------------- L0 ---------------------------------------
Win(a, b) == [min |-> a, max |-> b]
EmptyMap  == [x \in {} |-> Win(0, 0)]

\* All window maps over servers S with timestamps 0..T (min <= max).
Windows(T)   == {Win(a, b) : a \in 0..T, b \in 0..T} \cap {w \in [min : 0..T, max : 0..T] : w.min <= w.max}
MapsOver(S, T) == UNION {[D -> Windows(T)] : D \in SUBSET S}

\* ----------------------------- L1 ---------------------------------------
Shared(c, s) == DOMAIN c \cap DOMAIN s
Lag(c, s)    == {x \in Shared(c, s) : c[x].max < s[x].min}   \* consumer behind supplier's window
Adv(c, s)    == {x \in Shared(c, s) : s[x].max < c[x].min}   \* consumer ahead of supplier's window

L1Status(c, s) ==
  IF Shared(c, s) = {} THEN "nooverlap"
  ELSE IF Lag(c, s) # {} /\ Adv(c, s) # {} THEN "critical"
  ELSE IF Lag(c, s) # {} THEN "refresh"
  ELSE IF Adv(c, s) # {} THEN "unwilling"
  ELSE "ok"

\* Servers for which something MUST be supplied when status is ok.
MustSupply(c, s) == {x \in Shared(c, s) : c[x].max < s[x].max} \cup (DOMAIN s \ DOMAIN c)
ExactWindow(c, s, x) == IF x \in DOMAIN c THEN Win(c[x].max, s[x].max) ELSE Win(0, s[x].max)

\* The property, on an observed (status, supplied) pair.  One-sidedness: for a shared server
\* whose consumer max >= supplier max the window "consumer newest .. supplier newest" is empty,
\* so it may be omitted or sent as that (empty) window; anything else is wrong.
L1Ok(c, s, status, supplied) ==
  /\ status = L1Status(c, s)
  /\ status = "ok" =>
       /\ MustSupply(c, s) \subseteq DOMAIN supplied
       /\ DOMAIN supplied \subseteq DOMAIN s
       /\ \A x \in DOMAIN supplied : supplied[x] = ExactWindow(c, s, x)
  /\ status # "ok" => DOMAIN supplied = {}

\* ----------------------------- L2 ---------------------------------------
\* range_diff iterates the SUPPLIER's servers and fills three maps.
L2LagSet(c, s)  == {x \in DOMAIN s : x \in DOMAIN c /\ c[x].max < s[x].min}
L2AdvSet(c, s)  == {x \in DOMAIN s : x \in DOMAIN c /\ ~(c[x].max < s[x].min) /\ s[x].max < c[x].min}
L2DiffSet(c, s) == {x \in DOMAIN s :
                      \/ x \notin DOMAIN c
                      \/ /\ x \in DOMAIN c
                         /\ ~(c[x].max < s[x].min) /\ ~(s[x].max < c[x].min)
                         /\ c[x].max < s[x].max}
L2Diff(c, s) == [x \in L2DiffSet(c, s) |-> IF x \in DOMAIN c THEN Win(c[x].max, s[x].max) ELSE Win(0, s[x].max)]
L2LagMap(c, s) == [x \in L2LagSet(c, s) |-> Win(s[x].min, c[x].max)]
L2AdvMap(c, s) == [x \in L2AdvSet(c, s) |-> Win(s[x].max, c[x].min)]

RangeDiff(c, s) ==
  LET overlap == (DOMAIN s \cap DOMAIN c) # {}
      cl == L2LagSet(c, s) # {}
      sl == L2AdvSet(c, s) # {}
  IN  IF ~overlap THEN [status |-> "nooverlap", ok |-> EmptyMap, lag |-> EmptyMap, adv |-> EmptyMap]
      ELSE IF ~cl /\ ~sl THEN [status |-> "ok", ok |-> L2Diff(c, s), lag |-> EmptyMap, adv |-> EmptyMap]
      ELSE IF cl /\ ~sl THEN [status |-> "refresh", ok |-> EmptyMap, lag |-> L2LagMap(c, s), adv |-> EmptyMap]
      ELSE IF ~cl /\ sl THEN [status |-> "unwilling", ok |-> EmptyMap, lag |-> EmptyMap, adv |-> L2AdvMap(c, s)]
      ELSE [status |-> "critical", ok |-> EmptyMap, lag |-> L2LagMap(c, s), adv |-> L2AdvMap(c, s)]

\* L2 meets L1 on one input
L2MeetsL1(c, s) == LET r == RangeDiff(c, s) IN L1Ok(c, s, r.status, r.ok)
=============================================================================
