CONSTANTS
  Grace = 300
INIT Init
NEXT Next
INVARIANT Judge
POSTCONDITION Consumed
CHECK_DEADLOCK FALSE
