---------------------------- MODULE KMergeProof ----------------------------
(***************************************************************************)
(* Unbounded design-level statement behind C11 for login / OAuth2 sessions:*)
(* the per-key merge used by repl_merge_valueset is a join of a total      *)
(* order (commutative, associative, idempotent), hence merging any number  *)
(* of replicas' session maps in any order and grouping gives one result,   *)
(* and a revocation is absorbing.  KMergeMC checks this for 3 views over a *)
(* bounded state space; here it is proved for all states.                  *)
(***************************************************************************)
EXTENDS KMerge, TLAPS

\* well-formed session state (normal form of the projection)
WFS(x) == /\ x \in [st : {"never", "exp", "rev"}, v : Nat, s : Nat]
          /\ (x.st = "never" => x.v = 0 /\ x.s = 0)
          /\ (x.st = "exp" => x.s = 0)

\* newer side x absorbs older side y (one key present on both sides)
J(x, y) == IF SesGt(y, x) THEN y ELSE x

LEMMA CidTotal == \A a, b \in Nat \X Nat : a = b \/ CidLt(a, b) \/ CidLt(b, a)
  BY DEF CidLt
LEMMA CidAsym == \A a, b \in Nat \X Nat : ~(CidLt(a, b) /\ CidLt(b, a))
  BY DEF CidLt
LEMMA CidTrans == \A a, b, c \in Nat \X Nat : CidLt(a, b) /\ CidLt(b, c) => CidLt(a, c)
  BY DEF CidLt

LEMMA GtTotal == \A x, y : WFS(x) /\ WFS(y) => (x = y \/ SesGt(x, y) \/ SesGt(y, x))
  <1> SUFFICES ASSUME NEW x, NEW y, WFS(x), WFS(y) PROVE x = y \/ SesGt(x, y) \/ SesGt(y, x)
    OBVIOUS
  <1>1. x = [st |-> x.st, v |-> x.v, s |-> x.s] /\ y = [st |-> y.st, v |-> y.v, s |-> y.s]
    BY DEF WFS
  <1>2. x.v \in Nat /\ x.s \in Nat /\ y.v \in Nat /\ y.s \in Nat BY DEF WFS
  <1> QED BY <1>1, <1>2 DEF WFS, SesGt, SesRank, CidLt, CidOf
LEMMA GtAsym == \A x, y : WFS(x) /\ WFS(y) => ~(SesGt(x, y) /\ SesGt(y, x))
  BY DEF WFS, SesGt, SesRank, CidLt, CidOf
LEMMA GtTrans == \A x, y, z : WFS(x) /\ WFS(y) /\ WFS(z) /\ SesGt(x, y) /\ SesGt(y, z) => SesGt(x, z)
  BY DEF WFS, SesGt, SesRank, CidLt, CidOf

THEOREM JoinIdem == \A x : WFS(x) => J(x, x) = x
  BY GtAsym DEF J
THEOREM JoinComm == \A x, y : WFS(x) /\ WFS(y) => J(x, y) = J(y, x)
  BY GtTotal, GtAsym DEF J
THEOREM JoinClosed == \A x, y : WFS(x) /\ WFS(y) => WFS(J(x, y))
  BY DEF J
THEOREM JoinAssoc == \A x, y, z : WFS(x) /\ WFS(y) /\ WFS(z) => J(J(x, y), z) = J(x, J(y, z))
  <1> SUFFICES ASSUME NEW x, NEW y, NEW z, WFS(x), WFS(y), WFS(z) PROVE J(J(x, y), z) = J(x, J(y, z))
    OBVIOUS
  <1>1. x = y \/ SesGt(x, y) \/ SesGt(y, x) BY GtTotal
  <1>2. y = z \/ SesGt(y, z) \/ SesGt(z, y) BY GtTotal
  <1>3. x = z \/ SesGt(x, z) \/ SesGt(z, x) BY GtTotal
  <1>4. ~(SesGt(x, y) /\ SesGt(y, x)) /\ ~(SesGt(y, z) /\ SesGt(z, y)) /\ ~(SesGt(x, z) /\ SesGt(z, x)) BY GtAsym
  <1>5. (SesGt(x, y) /\ SesGt(y, z) => SesGt(x, z)) /\ (SesGt(z, y) /\ SesGt(y, x) => SesGt(z, x))
        /\ (SesGt(y, x) /\ SesGt(x, z) => SesGt(y, z)) /\ (SesGt(z, x) /\ SesGt(x, y) => SesGt(z, y))
        /\ (SesGt(x, z) /\ SesGt(z, y) => SesGt(x, y)) /\ (SesGt(y, z) /\ SesGt(z, x) => SesGt(y, x))
    BY GtTrans
  <1>6. ~SesGt(x, x) /\ ~SesGt(y, y) /\ ~SesGt(z, z) BY GtAsym
  <1> QED BY <1>1, <1>2, <1>3, <1>4, <1>5, <1>6 DEF J
\* a revocation is absorbing and the earliest revocation is the one kept
THEOREM RevAbsorbs == \A x, y : WFS(x) /\ WFS(y) /\ (x.st = "rev" \/ y.st = "rev") => J(x, y).st = "rev"
  BY DEF J, SesGt, SesRank, WFS
THEOREM EarliestRevKept == \A x, y : WFS(x) /\ WFS(y) /\ x.st = "rev" /\ y.st = "rev" =>
                               /\ J(x, y) \in {x, y}
                               /\ ~CidLt(CidOf(x), CidOf(J(x, y))) /\ ~CidLt(CidOf(y), CidOf(J(x, y)))
  BY DEF J, SesGt, SesRank, WFS, CidLt, CidOf
\* the map-level merge of KMerge is J pointwise (no trimming: trim point <<0, 0>>)
THEOREM MergeIsPointwiseJoin ==
  \A a, b : LET m == Merge("ses", a, b, <<0, 0>>) IN
     ((\A k \in DOMAIN a : WFS(a[k])) /\ (\A k \in DOMAIN b : WFS(b[k]))) =>
        /\ DOMAIN m = DOMAIN a \cup DOMAIN b
        /\ \A k \in DOMAIN m : m[k] = IF k \notin DOMAIN a THEN b[k] ELSE IF k \notin DOMAIN b THEN a[k] ELSE J(a[k], b[k])
  <1> SUFFICES ASSUME NEW a, NEW b, \A k \in DOMAIN a : WFS(a[k]), \A k \in DOMAIN b : WFS(b[k])
               PROVE LET m == Merge("ses", a, b, <<0, 0>>) IN
                      /\ DOMAIN m = DOMAIN a \cup DOMAIN b
                      /\ \A k \in DOMAIN m : m[k] = IF k \notin DOMAIN a THEN b[k] ELSE IF k \notin DOMAIN b THEN a[k] ELSE J(a[k], b[k])
    OBVIOUS
  <1> DEFINE u == [k \in DOMAIN a \cup DOMAIN b |->
                     IF k \notin DOMAIN a THEN b[k]
                     ELSE IF k \in DOMAIN b /\ Gt("ses", b[k], a[k]) THEN b[k] ELSE a[k]]
  <1>1. \A k \in DOMAIN u : u[k] = IF k \notin DOMAIN a THEN b[k] ELSE IF k \notin DOMAIN b THEN a[k] ELSE J(a[k], b[k])
    BY DEF J, Gt
  <1>2. \A k \in DOMAIN u : WFS(u[k])
    BY <1>1 DEF J
  <1>3. \A k \in DOMAIN u : ~(u[k].st = "rev" /\ CidLt(CidOf(u[k]), <<0, 0>>))
    BY <1>2 DEF WFS, CidLt, CidOf
  <1>4. Trim("ses", u, <<0, 0>>) = u
    BY <1>3 DEF Trim
  <1>5. Merge("ses", a, b, <<0, 0>>) = u
    BY <1>4 DEF Merge
  <1> QED BY <1>1, <1>5
=============================================================================
