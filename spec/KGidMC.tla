-------------------------------- MODULE KGidMC --------------------------------
(* TLC: the two arithmetic statements on every interval boundary +-2 (values below 2^31, TLC integers
   are 32 bit; the full 32-bit ranges are discharged symbolically by Apalache on KGidApa), the pair
   arithmetic used by the trace module against Gen, and reachability of every arm. *)
EXTENDS KGid, FiniteSets, TLC
Edges == {0, 999, 1000, 60000, 60001, 60577, 60578, 61183, 61184, 65519, 65520, 65533, 65534, 65535, 65536,
          524287, 524288, 1879048191, 1879048192, 2147483640, 268435456, 536870912, 16777216, 65536 * 4096}
Near(x) == {y \in (x - 2)..(x + 2) : y >= 0 /\ y <= 2147483642}
B == UNION {Near(x) : x \in Edges}

\* numbers as 16-bit halves (what the harness logs; avoids 32-bit overflow in TLC)
Val(p) == p.h * 65536 + p.l
Pair(x) == [h |-> x \div 65536, l |-> x % 65536]
GenP(p) == [h |-> 28672 + (p.h % 4096), l |-> p.l]

VARIABLES u, g
Init == u \in B /\ g \in B
Next == UNCHANGED <<u, g>>
Inv == /\ GenSafe(u) /\ AcceptSafe(g)
       /\ Val(GenP(Pair(u))) = Gen(u)            \* pair arithmetic = integer arithmetic
       /\ (Accept(g) \/ Reserved(g))             \* below 2^31 every number is accepted or reserved
\* vacuity: each arm reachable (checked as "invariants" expected to FAIL by the orchestrator? no: as counts)
ArmCount == Cardinality({x \in B : Reserved(x)}) >= 10 /\ Cardinality({x \in B : Accept(x)}) >= 10
ASSUME ArmCount
\* the boundary set is handed to the harness (direction A)
ASSUME \A x \in Edges : PrintT(<<"EDGE", x>>)
=============================================================================
