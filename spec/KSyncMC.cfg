INIT Init
NEXT Next
INVARIANT Inv
INVARIANT Hyp
INVARIANT Arms
CHECK_DEADLOCK FALSE
