INIT Init
NEXT Next
INVARIANT Inv
INVARIANT Arms
CHECK_DEADLOCK FALSE
