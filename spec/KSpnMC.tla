-------------------------------- MODULE KSpnMC --------------------------------
(* Exhaustive exploration of the spn transcription (L2) against SpnOk (L1): 3 entries (1,2 accounts or
   groups, 3 likewise), names n1 n2, domains d1 d2; create / rename / touch / domain rename / delete /
   revive up to MaxLen edits.  CEX / BEH tuples as in KRefintMC. *)
EXTENDS KSpn, Sequences
CONSTANTS MaxLen, Sample
I3 == 1..3
Names == <<"n1", "n2", "n3">>
Doms == <<"example.com", "new.example.org">>
VARIABLES s, h
Init == /\ s = [ids |-> I3, named |-> I3, lv |-> [x \in I3 |-> IF x = 1 THEN "live" ELSE "absent"],
                name |-> [x \in I3 |-> IF x = 1 THEN "n1" ELSE ""],
                spn |-> [x \in I3 |-> IF x = 1 THEN {<<"n1", Doms[1]>>} ELSE {}], dom |-> Doms[1]]
        /\ h = <<>>
Step(k, a, b, t) == s' = t /\ h' = h \o <<k, a, b>>
Next == /\ SpnOk(s) /\ Len(h) < 3 * MaxLen
        /\ \/ \E x \in I3, n \in 1..3 : s.lv[x] = "absent" /\ Step(1, x, n, Create(s, x, Names[n]).st)
           \/ \E x \in I3, n \in 1..3 : s.lv[x] = "live" /\ Step(2, x, n, Rename(s, x, Names[n]).st)
           \/ \E d \in 1..2 : Step(3, d, 0, DomainRename(s, Doms[d]))
           \/ \E x \in I3 : s.lv[x] = "live" /\ Step(4, x, 0, Delete(s, {x}))
           \/ \E x \in I3 : s.lv[x] = "recycled" /\ Step(5, x, 0, Revive(s, {x}).st)
           \/ \E x \in I3 : s.lv[x] = "live" /\ Step(6, x, 0, Touch(s, x))
Spec == Init /\ [][Next]_<<s, h>>
Pad(q) == q \o [i \in 1..(24 - Len(q)) |-> 0]
Tup(tag) == LET p == Pad(h) IN
  <<tag, Len(h) \div 3, p[1], p[2], p[3], p[4], p[5], p[6], p[7], p[8], p[9], p[10], p[11], p[12], p[13], p[14], p[15],
       p[16], p[17], p[18], p[19], p[20], p[21], p[22], p[23], p[24]>>
Fold == LET RECURSIVE G(_) G(i) == IF i = 0 THEN 0 ELSE (h[i] * (i + 7) + G(i - 1)) % 100003 IN G(Len(h))
Soft == /\ SpnOk(s) \/ PrintT(Tup("CEX"))
        /\ (Len(h) = 3 * MaxLen /\ SpnOk(s) /\ Fold % Sample = 0) => PrintT(Tup("BEH"))
View == IF SpnOk(s) /\ Len(h) < 3 * MaxLen THEN <<s, <<>> >> ELSE <<s, h>>
\* vacuity guard: a recycled entry with an out-of-date spn (renamed domain while in the bin) is reachable
StaleInBin == \E x \in I3 : s.lv[x] = "recycled" /\ s.spn[x] # {<<s.name[x], s.dom>>}
=============================================================================
