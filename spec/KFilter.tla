------------------------------- MODULE KFilter -------------------------------
(***************************************************************************)
(* Search filters of kanidm (properties C01, C02; C41 builds on it in      *)
(* KProtoFilter).                                                          *)
(*                                                                         *)
(* L0  vocabulary : filter AST, entries, databases, index layouts          *)
(* L1  property   : Match (ordinary boolean semantics, NOT = complement),  *)
(*                  SearchExact, RewriteKeepsMeaning                       *)
(* L2  transcription of server/lib/src/filter.rs (resolve_idx,             *)
(*     resolve_no_idx, Ord/PartialEq for FilterResolved, optimise,         *)
(*     fast_optimise) and server/lib/src/be/mod.rs (filter2idl, search,    *)
(*     exists), arm by arm.                                                *)
(*                                                                         *)
(* Filter AST (records; JSON objects of the same shape in traces):         *)
(*   [k|->"eq",a,v] [k|->"pres",a] [k|->"sub",a,v] (contains)              *)
(*   [k|->"stw",a,v] [k|->"enw",a,v] [k|->"lt",a,v] [k|->"inv",a]          *)
(*   [k|->"and",fs] [k|->"or",fs] (fs a sequence) [k|->"not",f]            *)
(*   [k|->"self"]  (the caller's own uuid; unresolved filters only)        *)
(* Resolved filters carry the index slope s on every node (0 = None).      *)
(*                                                                         *)
(* Class value ids: 90 object (every entry), 91 recycled, 92 tombstone.     *)
(* Values are naturals.  String-valued attributes (StrAttrs) use value ids *)
(* 1,2 and needle ids 0,1,2 which stand for the character strings below    *)
(* (characters are 1="a" 2="b" 3="x"): value 1="abx" value 2="xab",        *)
(* needle 0="ab" 1="bx" 2="xa".  Order of ids = lexicographic order of the *)
(* strings.  Ordered attributes (OrdAttrs) hold integers.                  *)
(***************************************************************************)
EXTENDS Integers, Sequences, FiniteSets, TLC

\* ----------------------------- L0 ---------------------------------------
StrAttrs == {"a"}
OrdAttrs == {"b"}
\* real `Ord for Attribute` (enum declaration order) of auth_password_minimum_length (b), class, denied_name (a), uuid;
\* the driver logs the real order in every reset line and the trace spec compares
AttrOrder == <<"b", "class", "a", "uuid">>
AttrRank(a) == CHOOSE i \in 1..Len(AttrOrder) : AttrOrder[i] = a

StrOf(v)    == CASE v = 1 -> <<1, 2, 3>> [] v = 2 -> <<3, 1, 2>> [] OTHER -> <<>>
NeedleOf(n) == CASE n = 0 -> <<1, 2>> [] n = 1 -> <<2, 3>> [] n = 2 -> <<3, 1>> [] OTHER -> <<9>>

OccursAt(s, n, i) == i >= 1 /\ i + Len(n) - 1 <= Len(s) /\ SubSeq(s, i, i + Len(n) - 1) = n
ContainsS(s, n)   == \E i \in 1..Len(s) : OccursAt(s, n, i)
StartsS(s, n)     == OccursAt(s, n, 1)
EndsS(s, n)       == OccursAt(s, n, Len(s) - Len(n) + 1)

Vals(e, a) == IF a \in DOMAIN e THEN e[a] ELSE {}

And(fs) == [k |-> "and", fs |-> fs]
Or(fs)  == [k |-> "or", fs |-> fs]
Not(f)  == [k |-> "not", f |-> f]
Eq(a, v)   == [k |-> "eq", a |-> a, v |-> v]
Pres(a)    == [k |-> "pres", a |-> a]
Sub(a, v)  == [k |-> "sub", a |-> a, v |-> v]
Stw(a, v)  == [k |-> "stw", a |-> a, v |-> v]
Enw(a, v)  == [k |-> "enw", a |-> a, v |-> v]
LessT(a, v) == [k |-> "lt", a |-> a, v |-> v]
Inv(a)     == [k |-> "inv", a |-> a]

RangeOf(s) == {s[i] : i \in DOMAIN s}

\* ----------------------------- L1 ---------------------------------------
(* Ordinary boolean semantics of a filter on one entry.  `sid` is the uuid id of the caller
   (only `self` uses it).  Works on unresolved and resolved filters alike (slopes ignored). *)
RECURSIVE Match(_, _, _)
Match(f, e, sid) ==
  CASE f.k = "eq"   -> f.v \in Vals(e, f.a)
    [] f.k = "pres" -> Vals(e, f.a) # {}
    [] f.k = "sub"  -> f.a \in StrAttrs /\ \E v \in Vals(e, f.a) : ContainsS(StrOf(v), NeedleOf(f.v))
    [] f.k = "stw"  -> f.a \in StrAttrs /\ \E v \in Vals(e, f.a) : StartsS(StrOf(v), NeedleOf(f.v))
    [] f.k = "enw"  -> f.a \in StrAttrs /\ \E v \in Vals(e, f.a) : EndsS(StrOf(v), NeedleOf(f.v))
    [] f.k = "lt"   -> f.a \in OrdAttrs /\ \E v \in Vals(e, f.a) : v < f.v
    [] f.k = "inv"  -> FALSE
    [] f.k = "self" -> sid \in Vals(e, "uuid")
    [] f.k = "and"  -> \A i \in DOMAIN f.fs : Match(f.fs[i], e, sid)
    [] f.k = "or"   -> \E i \in DOMAIN f.fs : Match(f.fs[i], e, sid)
    [] f.k = "not"  -> ~Match(f.f, e, sid)

\* db is a function from entry ids to entries
MatchSet(f, db, sid) == {i \in DOMAIN db : Match(f, db[i], sid)}

\* C01: the observed outcome of a search is an explicit error or exactly the matching entries
SearchExact(f, db, sid, res) == res = MatchSet(f, db, sid)
\* C01 for the existence test
ExistsExact(f, db, sid, ex) == ex = (MatchSet(f, db, sid) # {})
\* C02: a rewritten filter rf gives, on entry e, the verdict of the original filter
RewriteKeepsMeaning(f, rf, e, sid) == Match(rf, e, sid) = Match(f, e, sid)

\* ----------------------------- L2: resolve -------------------------------
(* idx: function from key strings "attr.type" (type in eq, pres, sub, ord) to slope >= 1 *)
IKey(a, t) == a \o "." \o t
Slope(idx, a, t) == IF IKey(a, t) \in DOMAIN idx THEN idx[IKey(a, t)] ELSE 0

RECURSIVE ResolveIdx(_, _, _)
ResolveIdx(f, idx, sid) ==
  CASE f.k = "eq"   -> [k |-> "eq", a |-> f.a, v |-> f.v, s |-> Slope(idx, f.a, "eq")]
    [] f.k = "self" -> [k |-> "eq", a |-> "uuid", v |-> sid, s |-> Slope(idx, "uuid", "eq")]
    [] f.k \in {"sub", "stw", "enw"} -> [k |-> f.k, a |-> f.a, v |-> f.v, s |-> Slope(idx, f.a, "sub")]
    [] f.k = "pres" -> [k |-> "pres", a |-> f.a, s |-> Slope(idx, f.a, "pres")]
    [] f.k = "lt"   -> [k |-> "lt", a |-> f.a, v |-> f.v, s |-> Slope(idx, f.a, "ord")]
    [] f.k = "inv"  -> [k |-> "inv", a |-> f.a, s |-> 1]
    [] f.k \in {"and", "or"} -> [k |-> f.k, fs |-> [i \in DOMAIN f.fs |-> ResolveIdx(f.fs[i], idx, sid)], s |-> 0]
    [] f.k = "not"  -> [k |-> "not", f |-> ResolveIdx(f.f, idx, sid), s |-> 0]

\* no index metadata: only name / uuid equality are assumed indexed (slope 1)
RECURSIVE ResolveNoIdx(_, _)
ResolveNoIdx(f, sid) ==
  CASE f.k = "eq"   -> [k |-> "eq", a |-> f.a, v |-> f.v, s |-> IF f.a \in {"name", "uuid"} THEN 1 ELSE 0]
    [] f.k = "self" -> [k |-> "eq", a |-> "uuid", v |-> sid, s |-> 1]
    [] f.k \in {"sub", "stw", "enw", "lt"} -> [k |-> f.k, a |-> f.a, v |-> f.v, s |-> 0]
    [] f.k = "pres" -> [k |-> "pres", a |-> f.a, s |-> 0]
    [] f.k = "inv"  -> [k |-> "inv", a |-> f.a, s |-> 1]
    [] f.k \in {"and", "or"} -> [k |-> f.k, fs |-> [i \in DOMAIN f.fs |-> ResolveNoIdx(f.fs[i], sid)], s |-> 0]
    [] f.k = "not"  -> [k |-> "not", f |-> ResolveNoIdx(f.f, sid), s |-> 0]

\* ----------------------------- L2: ordering, equality --------------------
Sgn(x, y) == IF x < y THEN -1 ELSE IF x > y THEN 1 ELSE 0

\* `Ord for FilterResolved`: slope first (None last), then kind-specific tie-break
Cmp(x, y) ==
  LET sc == IF x.s > 0 /\ y.s > 0 THEN Sgn(x.s, y.s)
            ELSE IF x.s > 0 THEN -1 ELSE IF y.s > 0 THEN 1 ELSE 0
      av(p, q) == IF p.a # q.a THEN Sgn(AttrRank(p.a), AttrRank(q.a)) ELSE Sgn(p.v, q.v)
  IN IF sc # 0 THEN sc
     ELSE IF x.k = y.k /\ x.k \in {"eq", "sub", "lt"} THEN av(x, y)
     ELSE IF x.k = "pres" /\ y.k = "pres" THEN Sgn(AttrRank(x.a), AttrRank(y.a))
     ELSE IF x.k = "eq" THEN -1 ELSE IF y.k = "eq" THEN 1
     ELSE IF x.k = "pres" THEN -1 ELSE IF y.k = "pres" THEN 1
     ELSE IF x.k = "lt" THEN -1 ELSE IF y.k = "lt" THEN 1
     ELSE IF x.k = "sub" THEN -1 ELSE IF y.k = "sub" THEN 1
     ELSE 0

\* `PartialEq for FilterResolved`: slope ignored; stw / enw / inv never equal
RECURSIVE Eqv(_, _)
Eqv(x, y) ==
  /\ x.k = y.k
  /\ CASE x.k \in {"eq", "sub", "lt"} -> x.a = y.a /\ x.v = y.v
       [] x.k = "pres" -> x.a = y.a
       [] x.k \in {"and", "or"} -> Len(x.fs) = Len(y.fs) /\ \A i \in DOMAIN x.fs : Eqv(x.fs[i], y.fs[i])
       [] x.k = "not" -> Eqv(x.f, y.f)
       [] OTHER -> FALSE

\* sort_unstable on short slices is an insertion sort: an element moves left past strictly greater ones
CmpR(x, y, rev) == IF rev THEN Cmp(y, x) ELSE Cmp(x, y)
RECURSIVE InsertInto(_, _, _)
InsertInto(s, x, rev) ==
  IF s = <<>> THEN <<x>>
  ELSE LET last == s[Len(s)]
       IN IF CmpR(x, last, rev) = -1 THEN Append(InsertInto(SubSeq(s, 1, Len(s) - 1), x, rev), last)
          ELSE Append(s, x)
RECURSIVE SortAcc(_, _, _, _)
SortAcc(s, i, acc, rev) == IF i > Len(s) THEN acc ELSE SortAcc(s, i + 1, InsertInto(acc, s[i], rev), rev)
FSort(s, rev) == SortAcc(s, 1, <<>>, rev)

\* Vec::dedup: drop an element equal (PartialEq) to the one kept just before it
RECURSIVE DedupAcc(_, _, _)
DedupAcc(s, i, acc) ==
  IF i > Len(s) THEN acc
  ELSE IF acc # <<>> /\ Eqv(acc[Len(acc)], s[i]) THEN DedupAcc(s, i + 1, acc)
  ELSE DedupAcc(s, i + 1, Append(acc, s[i]))
Dedup(s) == DedupAcc(s, 1, <<>>)

RECURSIVE ConcatFs(_, _, _)
ConcatFs(s, i, acc) == IF i > Len(s) THEN acc ELSE ConcatFs(s, i + 1, acc \o s[i].fs)

\* ----------------------------- L2: optimise ------------------------------
RECURSIVE Optimise(_)
Optimise(rf) ==
  IF rf.k \in {"and", "or"} THEN
    LET inner == [i \in DOMAIN rf.fs |-> Optimise(rf.fs[i])]
        same  == SelectSeq(inner, LAMBDA x : x.k = rf.k)
        rest  == SelectSeq(inner, LAMBDA x : x.k # rf.k)
        flat  == ConcatFs(same, 1, rest)
    IN IF Len(flat) = 1 THEN flat[1]
       ELSE LET srt == Dedup(FSort(flat, rf.k = "or"))
            IN [k |-> rf.k, fs |-> srt,
                s |-> IF srt = <<>> THEN 0 ELSE IF rf.k = "and" THEN srt[1].s ELSE srt[Len(srt)].s]
  ELSE rf

\* outer AND only: sort + dedup, no flattening, no unwrapping
FastOptimise(rf) ==
  IF rf.k = "and" THEN LET srt == Dedup(FSort(rf.fs, FALSE))
                       IN [k |-> "and", fs |-> srt, s |-> IF srt = <<>> THEN 0 ELSE srt[1].s]
  ELSE rf

(* Candidate repair of D1 (notes/fix-C01.patch, FilterResolved::anchor_andnot): before optimising, every AndNot
   without a positive sibling (root, inside OR, inside AndNot, AND of AndNots only) is anchored with Pres(class),
   which every entry satisfies, so that the backend has a candidate set to exclude from. *)
RECURSIVE Anchor(_, _, _)
Anchor(rf, pos, idx) ==
  LET cp == [k |-> "pres", a |-> "class", s |-> Slope(idx, "class", "pres")]
  IN CASE rf.k = "not" -> LET g == [k |-> "not", f |-> Anchor(rf.f, FALSE, idx), s |-> rf.s]
                          IN IF pos THEN g ELSE [k |-> "and", fs |-> <<cp, g>>, s |-> 0]
       [] rf.k = "and" -> LET haspos == \E i \in DOMAIN rf.fs : rf.fs[i].k # "not"
                              l == [i \in DOMAIN rf.fs |-> Anchor(rf.fs[i], TRUE, idx)]
                          IN [k |-> "and", fs |-> IF ~haspos /\ rf.fs # <<>> THEN <<cp>> \o l ELSE l, s |-> rf.s]
       [] rf.k = "or"  -> [k |-> "or", fs |-> [i \in DOMAIN rf.fs |-> Anchor(rf.fs[i], FALSE, idx)], s |-> rf.s]
       [] OTHER -> rf
RewriteFixed(f, idx, sid) == Optimise(Anchor(ResolveIdx(f, idx, sid), FALSE, idx))

\* what Filter::resolve produces: with index metadata / without
Rewrite(f, idx, sid)   == Optimise(ResolveIdx(f, idx, sid))
RewriteNoIdx(f, sid)   == FastOptimise(ResolveNoIdx(f, sid))

\* ----------------------------- L2: filter2idl ----------------------------
(* Candidate sets: [k |-> "allids" | "partial" | "pthres" | "indexed", s |-> set of ids].
   Index tables are assumed to mirror the entries (that is C03's business). *)
Idl(k, s) == [k |-> k, s |-> s]
AllIdsV == Idl("allids", {})
EqIdl(db, a, v)  == {i \in DOMAIN db : v \in Vals(db[i], a)}
PresIdl(db, a)   == {i \in DOMAIN db : Vals(db[i], a) # {}}
\* substring index: ids whose value contains the first n-gram of the needle; needles here are <= 3
\* characters so that is "contains the needle" (starts/ends conditions are NOT in the index)
SubIdl(db, a, n) == {i \in DOMAIN db : \E v \in Vals(db[i], a) : ContainsS(StrOf(v), NeedleOf(n))}
Below(s, th) == Cardinality(s) < th
IsNot(x) == x.k = "not"

\* AND: fold of the positive terms after the first.  st = [done, v, cnt]
AndPosStep(cand, inter, cnt, th) ==
  LET r == cand.s \cap inter.s
      ks == {cand.k, inter.k}
  IN CASE "allids" \in ks ->
            IF ks = {"allids"} THEN [done |-> FALSE, v |-> AllIdsV]
            ELSE LET x == IF cand.k = "allids" THEN inter ELSE cand
                 IN [done |-> FALSE, v |-> Idl(IF x.k = "pthres" THEN "pthres" ELSE "partial", x.s)]
       [] ks = {"indexed"} ->
            IF Below(r, th) /\ cnt > 0 THEN [done |-> TRUE, v |-> Idl("pthres", r)]
            ELSE IF r = {} THEN [done |-> TRUE, v |-> Idl("indexed", {})]
            ELSE [done |-> FALSE, v |-> Idl("indexed", r)]
       [] "pthres" \in ks ->
            IF Below(r, th) /\ cnt > 0 THEN [done |-> TRUE, v |-> Idl("pthres", r)]
            ELSE [done |-> FALSE, v |-> Idl("pthres", r)]
       [] OTHER ->  \* indexed/partial mixes
            IF Below(r, th) /\ cnt > 0 THEN [done |-> TRUE, v |-> Idl("pthres", r)]
            ELSE [done |-> FALSE, v |-> Idl("partial", r)]

\* AND: fold of the AndNot terms.  `fix` selects the candidate repair (see F2I)
AndNegStep(cand, inter, cnt, th, fix) ==
  LET r == cand.s \ inter.s
      ks == {cand.k, inter.k}
  IN CASE "allids" \in ks -> [done |-> FALSE, v |-> AllIdsV]
       [] ks = {"indexed"} -> [done |-> FALSE, v |-> Idl("indexed", r)]
       [] fix /\ inter.k # "indexed" ->
            \* repair: a superset cannot be subtracted; keep the candidates, let the entry test decide
            [done |-> FALSE, v |-> Idl(IF cand.k = "pthres" THEN "pthres" ELSE "partial", cand.s)]
       [] "pthres" \in ks ->
            IF Below(r, th) /\ cnt > 0 THEN [done |-> TRUE, v |-> Idl("pthres", r)]
            ELSE [done |-> FALSE, v |-> Idl("pthres", r)]
       [] OTHER ->
            IF Below(r, th) /\ cnt > 0 THEN [done |-> TRUE, v |-> Idl("pthres", r)]
            ELSE [done |-> FALSE, v |-> Idl("partial", r)]

(* c = [th |-> filter-test threshold, fix |-> BOOLEAN, pres |-> attributes that have a presence index table]
   fix = FALSE : the code as it is.  fix = TRUE : candidate repair of D2 -- an AndNot whose inner candidate
   set is only a superset (Partial / PartialThreshold) is not subtracted.  (D1 is repaired one layer up, by
   Anchor in the rewrite: filter2idl's answers for isolated AndNot terms are pinned by the unit tests.) *)
Cfg(th, fix, pres) == [th |-> th, fix |-> fix, pres |-> pres]
PresAttrs(idx) == {a \in {"a", "b", "class", "uuid"} : IKey(a, "pres") \in DOMAIN idx}
RECURSIVE F2I(_, _, _), OrFold(_, _, _, _, _, _, _), AndPos(_, _, _, _, _, _, _), AndNeg(_, _, _, _, _, _)
F2I(rf, db, c) ==
  CASE rf.k = "eq"   -> IF rf.s > 0 THEN Idl("indexed", EqIdl(db, rf.a, rf.v)) ELSE AllIdsV
    [] rf.k \in {"sub", "stw", "enw"} ->
         IF rf.s > 0 /\ rf.a \in StrAttrs THEN Idl("partial", SubIdl(db, rf.a, rf.v)) ELSE AllIdsV
    [] rf.k = "pres" -> IF rf.s > 0 THEN Idl("indexed", PresIdl(db, rf.a)) ELSE AllIdsV
    \* ordering terms read the PRESENCE table; if that table does not exist: "corrupt" -> AllIds
    [] rf.k = "lt"   -> IF rf.s > 0 /\ rf.a \in c.pres THEN Idl("partial", PresIdl(db, rf.a)) ELSE AllIdsV
    [] rf.k = "or"   -> OrFold(rf.fs, 1, {}, FALSE, FALSE, db, c)
    [] rf.k = "and"  ->
         LET nots == SelectSeq(rf.fs, IsNot)
             rem  == SelectSeq(rf.fs, LAMBDA x : ~IsNot(x))
             cnt0 == Len(rem) + Len(nots) - 1
         IN IF rem = <<>> THEN
              Idl("indexed", {})
            ELSE LET first == F2I(rem[1], db, c)
                 IN IF first.k # "allids" /\ Below(first.s, c.th) /\ cnt0 > 0 THEN Idl("pthres", first.s)
                    ELSE IF first.k # "allids" /\ first.s = {} THEN Idl("indexed", {})
                    ELSE AndPos(rem, 2, first, cnt0, nots, db, c)
    [] rf.k = "not"  -> Idl("indexed", {})
    [] rf.k = "inv"  -> Idl("indexed", {})

OrFold(fs, i, acc, part, thr, db, c) ==
  IF i > Len(fs) THEN Idl(IF part THEN (IF thr THEN "pthres" ELSE "partial") ELSE "indexed", acc)
  ELSE LET r == F2I(fs[i], db, c)
       IN IF r.k = "allids" THEN AllIdsV
          ELSE OrFold(fs, i + 1, acc \cup r.s, part \/ r.k \in {"partial", "pthres"}, thr \/ r.k = "pthres", db, c)

AndPos(rem, i, cand, cnt, nots, db, c) ==
  IF i > Len(rem) THEN AndNeg(nots, 1, cand, cnt, db, c)
  ELSE LET st == AndPosStep(cand, F2I(rem[i], db, c), cnt - 1, c.th)
       IN IF st.done THEN st.v ELSE AndPos(rem, i + 1, st.v, cnt - 1, nots, db, c)

AndNeg(nots, i, cand, cnt, db, c) ==
  IF i > Len(nots) THEN cand
  ELSE LET st == AndNegStep(cand, F2I(nots[i].f, db, c), cnt - 1, c.th, c.fix)
       IN IF st.done THEN st.v ELSE AndNeg(nots, i + 1, st.v, cnt - 1, db, c)

\* BackendTransaction::search with unlimited resource limits: re-test unless fully Indexed
SearchIdl(rf, db, sid, idl) ==
  IF idl.k = "indexed" THEN idl.s
  ELSE LET cand == IF idl.k = "allids" THEN DOMAIN db ELSE idl.s
       IN {i \in cand : Match(rf, db[i], sid)}
Search(rf, db, sid, c) == SearchIdl(rf, db, sid, F2I(rf, db, c))
\* BackendTransaction::exists
Exists(rf, db, sid, c) == Search(rf, db, sid, c) # {}

\* ----------------------------- defect signatures -------------------------
(* Structural classes of the two known divergences of filter2idl, on the resolved + optimised filter.
   D1: an AndNot that is not a child of an AND with at least one positive (non-AndNot) term
       -> evaluated as Indexed(empty), i.e. as FALSE.
   D2: an AndNot inside such an AND whose inner term only yields a superset (Partial / PartialThreshold)
       -> the superset is subtracted from the candidates. *)
RECURSIVE HasD1(_, _)
HasD1(rf, okparent) ==
  CASE rf.k = "not" -> ~okparent \/ HasD1(rf.f, FALSE)
    [] rf.k = "and" -> LET pos == \E i \in DOMAIN rf.fs : rf.fs[i].k # "not"
                       IN \E i \in DOMAIN rf.fs : HasD1(rf.fs[i], pos)
    [] rf.k = "or"  -> \E i \in DOMAIN rf.fs : HasD1(rf.fs[i], FALSE)
    [] OTHER -> FALSE

\* D2 on a given database: some AndNot term of an AND has an inner candidate set that is only a superset
RECURSIVE HasD2(_, _, _)
HasD2(rf, db, c) ==
  CASE rf.k = "not" -> HasD2(rf.f, db, c)
    [] rf.k = "and" -> \E i \in DOMAIN rf.fs :
                          \/ HasD2(rf.fs[i], db, c)
                          \/ (rf.fs[i].k = "not" /\ F2I(rf.fs[i].f, db, c).k \in {"partial", "pthres"})
    [] rf.k = "or"  -> \E i \in DOMAIN rf.fs : HasD2(rf.fs[i], db, c)
    [] OTHER -> FALSE

DefectSig(rf, db, c) == IF HasD1(rf, FALSE) THEN "andnot-isolated"
                        ELSE IF HasD2(rf, db, c) THEN "andnot-partial" ELSE "none"
=============================================================================
