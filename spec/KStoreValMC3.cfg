CONSTANTS
  MaxLen = 3
INIT Init
NEXT Next
INVARIANT Inv
INVARIANT Emit
CHECK_DEADLOCK FALSE
