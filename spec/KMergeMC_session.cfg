CONSTANTS
  Kind = "session"
  KeySet = {1}
INIT Init
NEXT Next
INVARIANT Inv
CHECK_DEADLOCK FALSE
