----------------------------- MODULE KMemberOfMC -----------------------------
(* Exhaustive check of the memberof transcription (L2) against MemberOfExact (L1).
   Nodes are integers: groups 1..NG, leaves NG+1..NG+NL. Initial states: EVERY member graph over
   the groups (self loops and cycles included) with exact stored closure, everything live.
   Next: one edit (add / remove one edge, replace a member set, delete 1..2 nodes, revive) from an
   EXACT state.  A transition into an inexact state is a hypothesis about the code: it is printed as
   <<"CEX", initial graph mask, n, k1,a1,b1, ...>> (the shortest history that TLC found from an
   all-live graph) and exploration does not continue from it.  The check replays every CEX on the
   real server; only L1 on the observed states can raise an alarm. *)
EXTENDS KMemberOf, Sequences
CONSTANTS NG, NL, MaxLen, Sample
Groups == 1..NG
Nodes  == 1..(NG + NL)
N      == NG + NL
VARIABLES s, g0, h

Const(S, v) == [x \in S |-> v]
Bit(g, x)   == 2 ^ ((g - 1) * N + (x - 1))
Mask(m)     == LET RECURSIVE Sum(_)
                   Sum(P) == IF P = {} THEN 0 ELSE LET p == CHOOSE q \in P : TRUE IN Bit(p[1], p[2]) + Sum(P \ {p})
               IN  Sum({<<g, x>> \in Groups \X Nodes : x \in m[g]})

Graph(m) == [nodes |-> Nodes, isg |-> Groups, live |-> Nodes,
             member |-> [x \in Nodes |-> IF x \in Groups THEN m[x] ELSE {}],
             mo |-> Const(Nodes, {}), dmo |-> Const(Nodes, {}), rdmo |-> Const(Nodes, {})]
ExactOf(t) == [t EXCEPT !.mo = [x \in Nodes |-> IF x \in t.live THEN Anc(t, x) ELSE {}],
                        !.dmo = [x \in Nodes |-> IF x \in t.live THEN Parents(t, x) ELSE {}]]

Init == \E m \in [Groups -> SUBSET Nodes] :
          /\ s = ExactOf(Graph(m)) /\ g0 = Mask(m) /\ h = <<>>

Ord(x) == x
Step(kind, a, b, t) == /\ s' = t /\ h' = h \o <<kind, a, b>> /\ g0' = g0
SetCode(M) == LET RECURSIVE Sum(_)
                  Sum(P) == IF P = {} THEN 0 ELSE LET p == CHOOSE q \in P : TRUE IN 2 ^ (p - 1) + Sum(P \ {p})
              IN  Sum(M)

Next == /\ MemberOfExact(s) /\ Len(h) < 3 * MaxLen
        /\ \/ \E g \in Groups \cap s.live, x \in s.live : x \notin s.member[g] /\ Step(1, g, x, AddMember(s, g, x))
           \/ \E g \in Groups \cap s.live, x \in Nodes : x \in s.member[g] /\ Step(2, g, x, RemoveMember(s, g, x))
           \/ \E g \in Groups \cap s.live, M \in SUBSET s.live :
                  Cardinality(SymDiff(M, s.member[g])) >= 2 /\ Step(3, g, SetCode(M), SetMembers(s, g, M, {}))
           \/ \E D \in SUBSET s.live : Cardinality(D) \in {1, 2} /\ Step(4, SetCode(D), 0, Delete(s, D))
           \/ \E x \in Nodes \ s.live : Step(5, x, 0, Revive(s, x, Ord))

Spec == Init /\ [][Next]_<<s, g0, h>>

\* flat tuple for the orchestrator (history of at most 4 edits, padded with zeros)
Pad(q) == q \o [i \in 1..(12 - Len(q)) |-> 0]
Report == LET p == Pad(h) IN
  PrintT(<<"CEX", g0, Len(h) \div 3, p[1], p[2], p[3], p[4], p[5], p[6], p[7], p[8], p[9], p[10], p[11], p[12]>>)
Fold == LET RECURSIVE F(_) F(i) == IF i = 0 THEN 0 ELSE (h[i] * (i + 7) + F(i - 1)) % 100003 IN F(Len(h))
ReportBeh == LET p == Pad(h) IN
  PrintT(<<"BEH", g0, Len(h) \div 3, p[1], p[2], p[3], p[4], p[5], p[6], p[7], p[8], p[9], p[10], p[11], p[12]>>)
\* counterexamples (hypotheses) and, for direction A, every Sample-th full-length history that stays exact
Soft == /\ MemberOfExact(s) \/ Report
        /\ (MemberOfExact(s) /\ Len(h) = 3 * MaxLen /\ (Fold + g0) % Sample = 0) => ReportBeh

View == IF MemberOfExact(s) /\ Len(h) < 3 * MaxLen THEN <<s, 0, <<>> >> ELSE <<s, g0, h>>

\* vacuity guards: every kind of edit is taken, and inexact states ARE reachable (hypothesis of DESIGN section 8)
ReachRevive == ~(Len(h) >= 3 /\ h[Len(h) - 2] = 5)
=============================================================================
