------------------------------ MODULE KMemberOf ------------------------------
(***************************************************************************)
(* Group membership closure (property C17).                                 *)
(*                                                                         *)
(* L0  a graph state  s = [nodes, isg, live, member, mo, dmo, rdmo]         *)
(*       member[g]  direct members of g (static `member` and `dynmember`)   *)
(*       mo / dmo   STORED memberof / directmemberof of every node          *)
(*       rdmo       recycled_directmemberof (kept while in the recycle bin) *)
(* L1  MemberOfExact: stored mo = live groups reaching the node through >=1 *)
(*     link between live groups, stored dmo = live groups listing it        *)
(* L2  transcription of server/lib/src/plugins/memberof.rs: apply_memberof  *)
(*     (striped fixpoint over `affected`), do_group_memberof (a group's mo  *)
(*     is derived from its parents' STORED mo), do_leaf_memberof, and the   *)
(*     call sites' choice of the initial affected set (create / modify /    *)
(*     delete after refint / revive with recycled_directmemberof restore)   *)
(***************************************************************************)
EXTENDS Naturals, FiniteSets, TLC

\* ----------------------------------- L1 -----------------------------------
Parents(s, x) == {g \in s.live \cap s.isg : x \in s.member[g]}
RECURSIVE AncR(_, _, _)
AncR(s, S, seen) == LET new == (UNION {Parents(s, y) : y \in S}) \ seen
                    IN  IF new = {} THEN seen ELSE AncR(s, new, seen \cup new)
Anc(s, x) == AncR(s, {x}, {})

ExactAt(s, x)    == s.mo[x] = Anc(s, x) /\ s.dmo[x] = Parents(s, x)
MemberOfExact(s) == \A x \in s.live : ExactAt(s, x)

\* classification of a failing observation (used for finding signatures only)
Stale(s, x)   == s.mo[x] \ Anc(s, x)
Missing(s, x) == Anc(s, x) \ s.mo[x]
OnCycle(s, x) == x \in Anc(s, x)
UnderCycle(s, x) == \E y \in Anc(s, x) \cup {x} : OnCycle(s, y)

\* ----------------------------------- L2 -----------------------------------
Upd(f, S, g) == [x \in DOMAIN f |-> IF x \in S THEN g[x] ELSE f[x]]

\* apply_memberof: while affected # {}: one stripe. Every affected LIVE GROUP recomputes
\* (do_group_memberof) dmo := live groups listing it, mo := dmo + the STORED mo of those groups; all
\* reads see the pre-stripe values (the stripe is written back after the loop body). Only groups whose
\* mo/dmo CHANGED put their members into the next affected set.
RECURSIVE FixR(_, _, _)
FixR(s, aff, all) ==
  IF aff = {} THEN [s |-> s, all |-> all]
  ELSE LET gs   == aff \cap s.isg \cap s.live
           nd   == [g \in gs |-> Parents(s, g)]
           nm   == [g \in gs |-> nd[g] \cup UNION {s.mo[p] : p \in nd[g]}]
           chg  == {g \in gs : nm[g] # s.mo[g] \/ nd[g] # s.dmo[g]}
           s2   == [s EXCEPT !.mo = Upd(s.mo, chg, nm), !.dmo = Upd(s.dmo, chg, nd)]
           next == UNION {s.member[g] : g \in chg}
       IN  FixR(s2, next, all \cup next)

\* do_leaf_memberof: every affected live NON-group copies its parents' final stored mo
LeafPass(s, all) ==
  LET ls == (all \cap s.live) \ s.isg
      nd == [x \in ls |-> Parents(s, x)]
      nm == [x \in ls |-> nd[x] \cup UNION {s.mo[p] : p \in nd[x]}]
  IN  [s EXCEPT !.mo = Upd(s.mo, ls, nm), !.dmo = Upd(s.dmo, ls, nd)]

ApplyMemberOf(s, aff) == LET r == FixR(s, aff, aff) IN LeafPass(r.s, r.all)

SymDiff(A, B) == (A \ B) \cup (B \ A)

\* modify of group g's members to M (post_modify_inner: affected = the modified entry + the
\* symmetric difference of its member values).  extra = other affected ids (dyngroup changes).
SetMembers(s, g, M, extra) ==
  LET s1 == [s EXCEPT !.member[g] = M]
  IN  ApplyMemberOf(s1, {g} \cup SymDiff(s.member[g], M) \cup extra)
AddMember(s, g, x)    == SetMembers(s, g, s.member[g] \cup {x}, {})
RemoveMember(s, g, x) == SetMembers(s, g, s.member[g] \ {x}, {})

\* create of nodes C with members mem (post_create_inner: affected = created + their members)
Create(s, C, mem) ==
  LET s1 == [s EXCEPT !.live = @ \cup C,
                      !.member = [x \in DOMAIN @ |-> IF x \in C THEN mem[x] ELSE @[x]]]
  IN  ApplyMemberOf(s1, C \cup UNION {mem[x] : x \in C})

\* delete of live nodes D: memberof pre_delete (dmo -> rdmo, mo purged), recycle, refint post_delete
\* (every reference to a deleted node is removed from EVERY entry, recycled ones included, and from
\* every reference attribute: member, memberof, directmemberof, recycled_directmemberof), then
\* memberof post_delete with affected = the members of the deleted groups.
Delete(s, D) ==
  LET strip(f) == [x \in DOMAIN f |-> f[x] \ D]
      s1 == [s EXCEPT !.live = @ \ D,
                      !.rdmo = strip([x \in DOMAIN @ |-> IF x \in D THEN s.dmo[x] ELSE @[x]]),
                      !.mo   = strip([x \in DOMAIN @ |-> IF x \in D THEN {} ELSE @[x]]),
                      !.dmo  = strip([x \in DOMAIN @ |-> IF x \in D THEN {} ELSE @[x]]),
                      !.member = strip(@)]
  IN  ApplyMemberOf(s1, UNION {s.member[x] : x \in D \cap s.isg})

\* revive of recycled node x: modify path with affected = {x} (its member values are unchanged so
\* nothing else is affected), then one internal_modify per group in recycled_directmemberof adding x
\* back as a member (ascending uuid order; each is a SetMembers on that group).
Revive(s, x, ord(_)) ==
  LET s1 == [s EXCEPT !.live = @ \cup {x}, !.rdmo[x] = {}]
      s2 == ApplyMemberOf(s1, {x})
      RECURSIVE Go(_, _)
      Go(t, gs) == IF gs = {} THEN t
                   ELSE LET g == CHOOSE h \in gs : \A k \in gs : ord(h) <= ord(k)
                        IN  Go(AddMember(t, g, x), gs \ {g})
  IN  Go(s2, s.rdmo[x])
=============================================================================
