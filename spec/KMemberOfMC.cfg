CONSTANTS
  NG = 3
  NL = 0
  Sample = 100
  MaxLen = 3
INIT Init
NEXT Next
VIEW View
INVARIANT Soft
CHECK_DEADLOCK FALSE
