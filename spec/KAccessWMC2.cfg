CONSTANTS
  MaxProfiles = 2
  SmallPool = TRUE
INIT Init
NEXT Next
INVARIANT Inv
INVARIANT InvSync
INVARIANT Arms
CHECK_DEADLOCK FALSE
