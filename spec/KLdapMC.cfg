CONSTANTS
  MaxDepth = 3
  ReqPool <- MCReqSmall
INIT Init
NEXT Next
INVARIANT L1Inv
PROPERTY L1Step
CHECK_DEADLOCK FALSE
