CONSTANTS
  Kind = "key"
  KeySet = {1, 2}
INIT Init
NEXT Next
INVARIANT Inv
CHECK_DEADLOCK FALSE
