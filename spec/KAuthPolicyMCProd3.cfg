CONSTANTS
  MaxPriv = 3600
  MaxSess = 2000000000
  MfaMin = 10
  SfaMin = 15
  MaxLen = 128
  Mfa = 10
  N = 3
  PeDom = {600}
  SeDom = {3600}
  MlDom = {12, 20}
  CtDom = {10, 20}
INIT InitProd
NEXT Next
INVARIANT Inv
CHECK_DEADLOCK FALSE
