------------------------------ MODULE KSpnTrace ------------------------------
(* Validates observations of the REAL server against SpnOk (L1) and reports lines the spn
   transcription (L2) does not explain.  The current domain name is the stored domain_name of the
   domain entry (st.domattr).  On `full` lines (every domain rename, every 25th step, every reset)
   st.spnx carries name and spn of EVERY other live account or group of the database. *)
EXTENDS KSpn, KDir, Json, IOUtils
Rec == ndJsonDeserialize(IOEnv.TRACE)
VARIABLE l
Starts(r) == r.a = "reset" \/ ("first" \in DOMAIN r /\ r.first)

Want(n, dom) == n \o "@" \o dom
\* ------------------------------------------ L1 on a line ------------------------------------------
OkEntry(n, spn, dom) == Len(n) = 1 /\ Len(spn) = 1 /\ spn[1] = Want(n[1], dom)
BadIds(st) == {x \in LiveIds(st) : (st.e[x].acct \/ st.e[x].isg) /\ ~OkEntry(st.e[x].n, st.e[x].spn, st.domattr)}
BadX(st)   == {i \in DOMAIN st.spnx : ~OkEntry(st.spnx[i].n, st.spnx[i].spn, st.domattr)}
LineL1(r)  == BadIds(r.st) = {} /\ BadX(r.st) = {}
Sig(r, pst) ==
  LET N == IF Starts(r) THEN BadIds(r.st) ELSE BadIds(r.st) \ BadIds(pst) IN
  IF N = {} /\ BadX(r.st) = {} THEN "persist"
  ELSE IF N = {} THEN "spn-wrong builtin-entry after=" \o r.a
  ELSE LET x == CHOOSE y \in N : TRUE IN
       "spn-wrong after=" \o r.a \o " kind=" \o r.st.e[x].k \o (IF Len(r.st.e[x].spn) = 1 THEN " value" ELSE " count")

\* ------------------------------------------ L2 on a line ------------------------------------------
\* spn strings are compared as strings: the abstract pair <<n, d>> is rendered n@d
Abs(st, I) ==
  [ids |-> I, named |-> {x \in I : x \in Ids(st) /\ (st.e[x].acct \/ st.e[x].isg)},
   lv  |-> [x \in I |-> Lv(st, x)],
   name |-> [x \in I |-> IF x \in Ids(st) /\ Len(st.e[x].n) = 1 THEN st.e[x].n[1] ELSE ""],
   spn |-> [x \in I |-> IF x \in Ids(st) THEN Range(st.e[x].spn) ELSE {}],
   dom |-> st.domattr]
Render(s) == [x \in s.ids |-> {Want(p[1], p[2]) : p \in s.spn[x]}]
Lift(s)   == [s EXCEPT !.spn = [x \in s.ids |-> {<<s.name[x], s.dom>>}]]   \* used only for entries L1 accepts

Predict(r, p, q) ==
  LET a == r.a
      has(x) == x \in p.ids
      mod(x) == IF has(x) THEN Touch(p, x) ELSE p
  IN
  IF a \in {"create_group", "create_dyn", "create_person", "create_svc", "create_oa2"} THEN
       (IF has(r.id) THEN Create([p EXCEPT !.named = @ \cup {r.id}], r.id, r.n) ELSE R(p, "err"))
  ELSE IF a = "rename" THEN (IF has(r.id) THEN Rename(p, r.id, r.n) ELSE R(p, "ok"))
  ELSE IF a = "domain_rename" THEN R(DomainRename(p, r.dom), "ok")
  ELSE IF a = "delete" THEN R(Delete(p, {x \in p.ids : p.lv[x] = "live" /\ q.lv[x] = "recycled"}), "ok")
  ELSE IF a = "revive" THEN Revive(p, Range(r.ids))
  ELSE IF a \in {"set_desc", "set_emb", "clear_emb"} THEN R(mod(r.id), "ok")
  ELSE IF a \in {"add_member", "remove_member", "set_members"} THEN R(mod(r.g), "ok")
  ELSE R(p, "ok")

\* the abstract state keeps spn as pairs; observed spn are strings: compare rendered strings
PairState(st, I) ==
  LET s == Abs(st, I) IN
  [s EXCEPT !.spn = [x \in I |-> IF x \in s.named /\ s.lv[x] # "absent" /\ s.spn[x] = {Want(s.name[x], s.dom)}
                                 THEN {<<s.name[x], s.dom>>}
                                 ELSE {<<v, "?">> : v \in s.spn[x]}]]   \* anything else is kept as an opaque value

LineL2(r, pst0) ==
  LET I == ModelIds(r.st) \cup (IF Starts(r) THEN {} ELSE ModelIds(pst0))
      q == PairState(r.st, I)
  IN  IF Starts(r) THEN TRUE
      ELSE LET p == PairState(pst0, I)
               m == Predict(r, p, q)
               \* only the spn of live named entries and the domain are predicted
               same(u) == u.dom = q.dom /\ \A x \in q.named : (q.lv[x] = "live" /\ u.lv[x] = "live") => u.spn[x] = q.spn[x]
           IN  IF r.res = "ok" THEN m.res = "ok" /\ same(m.st) ELSE same(p)

Init == l = 1
Next == l <= Len(Rec) /\ l' = l + 1
Spec == Init /\ [][Next]_l
Prev == IF l > 1 THEN Rec[l - 1].st ELSE Rec[l].st
Judge == l <= Len(Rec) =>
  /\ (LineL1(Rec[l]) \/ PrintT(<<"L1FAIL", "C22", l, Sig(Rec[l], Prev)>>))
  /\ (LineL2(Rec[l], Prev) \/ PrintT(<<"L2DRIFT", "C22", l>>))
Consumed == TLCGet("stats").distinct = Len(Rec) + 1 \/ PrintT(<<"NOTCONSUMED", TLCGet("stats").distinct, Len(Rec)>>)
=============================================================================
