CONSTANTS
  MaxLen = 4
  SlowLen = 2
  Single = FALSE
  Emit = TRUE
INIT Init
NEXT Next
INVARIANT Inv
POSTCONDITION Post
CHECK_DEADLOCK FALSE
