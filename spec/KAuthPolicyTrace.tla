--------------------------- MODULE KAuthPolicyTrace ---------------------------
(* Validates observations of the REAL ResolvedAccountPolicy::fold_from (C35).  One line per
   multiset of group policies:
   {"a":"fold","in":[policy...],"perms":[[i1..in]...],"outs":[resolved...]}
   outs[j] is what the real fold returned for the entries taken in order perms[j].
   policy   = {pe,se,ml,ct (-1 absent), ca:{has, l:{CA:[device ids | "*"]}}}
   resolved = {pe,se,ml,mx,ct, ca:{has,l}}                                         *)
EXTENDS KAuthPolicy, Json, IOUtils
Rec == ndJsonDeserialize(IOEnv.TRACE)
VARIABLE l

RangeOf(s) == {s[i] : i \in 1..Len(s)}
NormCa(ca) == [has |-> ca.has, l |-> [c \in DOMAIN ca.l |-> RangeOf(ca.l[c])]]
NormPol(p) == [pe |-> p.pe, se |-> p.se, ml |-> p.ml, ct |-> p.ct, ca |-> NormCa(p.ca)]
NormOut(o) == [pe |-> o.pe, se |-> o.se, ml |-> o.ml, mx |-> o.mx, ct |-> o.ct, ca |-> NormCa(o.ca)]
In(r)   == [i \in 1..Len(r.in) |-> NormPol(r.in[i])]
Outs(r) == [j \in 1..Len(r.outs) |-> NormOut(r.outs[j])]

LineOrder(r)  == L1Order(Outs(r))
LineStrict(r) == \A j \in 1..Len(r.outs) : L1Strict(In(r), Outs(r)[j])
LineL2(r)     == \A j \in 1..Len(r.outs) : Fold(Permute(In(r), r.perms[j])) = Outs(r)[j]

Init == l = 1
Next == l <= Len(Rec) /\ l' = l + 1
Judge == l <= Len(Rec) =>
           /\ (LineOrder(Rec[l])  \/ PrintT(<<"L1FAIL", "C35", l, "order">>))
           /\ (LineStrict(Rec[l]) \/ PrintT(<<"L1FAIL", "C35", l, "strict">>))
           /\ (LineL2(Rec[l])     \/ PrintT(<<"L2DRIFT", "C35", l>>))
Consumed == TLCGet("stats").distinct = Len(Rec) + 1 \/ PrintT(<<"NOTCONSUMED", TLCGet("stats").distinct, Len(Rec)>>)
=============================================================================
