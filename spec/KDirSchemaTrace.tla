---------------------------- MODULE KDirSchemaTrace ----------------------------
(* Validates observations of two REAL servers A and B (driver harness/store/src/c15.rs).
   Two kinds of histories: replicating pairs at the target domain level, and ("dyn":1) two independent servers kept at
   domain level 14 where attributetype / classtype entries take effect, so that classes added at run time with their own
   `must` / `may` are in force (the projected schema joins systemmust+must and systemmay+may).
     {"a":"reset","h":n,"res":"ok","st":{"A":{"ents":[E]},"B":{..}},"schema":{"A":S,"B":S}}
     {"a":"op","op":{..},"applies":0|1,"defect":class,"res":"ok"|"refused"|"panic"|"ok+ok"..,"err":text,"st":..,["schema":..]}
   E = {"id","m":0|1 (harness-made),"live","classes":[..],"attrs":{attr:{"n":k,"syn":tag}},"d":digest}
   S = {"classes":{name:{"must":[..],"may":[..]}},"attrs":{name:{"multi":0|1,"syn":tag}}}
   The schema in force is the one logged most recently ("schema" is logged whenever it may have changed).
   Lines without schema changes log only the harness-made entries (and conflict entries); lines with "schema" log
   every stored entry, built-in ones included. *)
EXTENDS KDirSchema, Json, IOUtils
Rec == ndJsonDeserialize(IOEnv.TRACE)
VARIABLE l

Init == l = 1
Next == l <= Len(Rec) /\ l' = l + 1
Spec == Init /\ [][Next]_l

HasSchema(i) == "schema" \in DOMAIN Rec[i]
SchemaIdx(i) == CHOOSE j \in 1..i : HasSchema(j) /\ \A k \in (j + 1)..i : ~HasSchema(k)
Srvs == {"A", "B"}

\* the harness-made entries of a server as a set of (id, digest, liveness) - what a refused operation must leave alone
Own(st, s) == {<<st[s].ents[i].id, st[s].ents[i].d, st[s].ents[i].live>> : i \in {j \in DOMAIN st[s].ents : st[s].ents[j].m = 1}}
Single(r) == r.op.op \in {"create", "modify", "cmodify", "recycle", "revive", "schema"}

Judge == l <= Len(Rec) =>
  LET r == Rec[l]  sc == Rec[SchemaIdx(l)].schema IN
  /\ \A s \in Srvs : \A i \in DOMAIN r.st[s].ents :
        LET e == r.st[s].ents[i] IN
        ((Live(e) => Valid(e, sc[s])) \/ PrintT(<<"L1FAIL", "C15", l, s \o " " \o e.id \o " " \o Why(e, sc[s])>>))
  /\ (r.a = "op" /\ Single(r) /\ r.res # "ok") =>
        \A s \in Srvs : (Own(r.st, s) = Own(Rec[l - 1].st, s) \/ PrintT(<<"L1FAIL", "C15", l, s \o " left-behind">>))
  /\ (r.a = "op" /\ r.op.op \in {"create", "modify", "cmodify"} /\ r.applies = 1) =>
        (r.res \in L2Result(r.defect) \/ PrintT(<<"L2DRIFT", "C15", l>>))
Consumed == TLCGet("stats").distinct = Len(Rec) + 1 \/ PrintT(<<"NOTCONSUMED", TLCGet("stats").distinct, Len(Rec)>>)
=============================================================================
