---------------------------- MODULE KUnixPamTrace ----------------------------
(* C43: validates observations of the REAL pam_sparkle_common core against the property (L1); lines the
   transcription (L2) does not explain are drift. Line shapes: see KUnix, Section Pam; additionally
   {"a":"pam_dispatch","up":BOOL,"script":[kinds],"iuu":BOOL,"res":code,"n":k,"reqs":[..]} for sm_authenticate
   with a configuration file (live socket / dead socket + system files, account that does not exist). *)
EXTENDS KUnix, Json, IOUtils
Rec == ndJsonDeserialize(IOEnv.TRACE)
VARIABLE l

LineL1(r) ==
  CASE r.a = "pam_conn" -> PamConnL1(r.script, r.res, r.n)
    [] r.a = "pam_fb" -> PamFbL1(r, r.res)
    \* unreachable daemon + an account absent from the system files can never succeed
    [] r.a = "pam_dispatch" -> IF r.up THEN PamConnL1(r.script, r.res, r.n) ELSE r.res # "SUCCESS"
    [] OTHER -> TRUE
LineL2(r) ==
  CASE r.a = "pam_conn" -> LET m == PamConn(r) IN m.res = r.res /\ m.n = r.n /\ m.reqs = r.reqs
    [] r.a = "pam_fb" -> PamFb(r) = r.res
    [] r.a = "pam_dispatch" ->
         IF r.up THEN LET m == PamConn([script |-> r.script, ufp |-> FALSE, iuu |-> r.iuu, authtok |-> "none", pw |-> "value",
                                         mfa |-> "value", pin |-> "value", msg |-> "ok", grant |-> "ok"])
                      IN  m.res = r.res /\ m.n = r.n
         ELSE r.res = (IF r.iuu THEN "IGNORE" ELSE "USER_UNKNOWN")
    [] OTHER -> TRUE
Sig(r) == IF r.a = "pam_fb" THEN "fallback-success" ELSE "success-without-daemon-success"

Init == l = 1
Next == l <= Len(Rec) /\ l' = l + 1
Spec == Init /\ [][Next]_l
Judge == l <= Len(Rec) =>
           /\ (LineL1(Rec[l]) \/ PrintT(<<"L1FAIL", "C43", l, Sig(Rec[l])>>))
           /\ (LineL2(Rec[l]) \/ PrintT(<<"L2DRIFT", "C43", l>>))
Consumed == TLCGet("stats").distinct = Len(Rec) + 1 \/ PrintT(<<"NOTCONSUMED", TLCGet("stats").distinct, Len(Rec)>>)
=============================================================================
