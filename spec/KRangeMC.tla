------------------------------ MODULE KRangeMC ------------------------------
(* Exhaustive check of the transcription (L2) against the decision table (L1):
   every ordered pair of window maps over Servers x 0..T is one initial state. *)
EXTENDS KRange
CONSTANTS Servers, T
VARIABLES c, s
Init == c \in MapsOver(Servers, T) /\ s \in MapsOver(Servers, T)
Next == UNCHANGED <<c, s>>
Spec == Init /\ [][Next]_<<c, s>>
Inv  == L2MeetsL1(c, s)
\* sanity: every status is reachable in the bounded space (vacuity guard)
Reach(st) == RangeDiff(c, s).status # st
=============================================================================
