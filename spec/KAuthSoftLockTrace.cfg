CONSTANTS
  Day = 86400
INIT Init
NEXT Next
INVARIANT Judge
POSTCONDITION Consumed
CHECK_DEADLOCK FALSE
