---------------------------- MODULE KTxnSnapTrace ----------------------------
(* C06: validates observations of one reader interleaved with one committing writer on the REAL
   server. One line per replayed schedule:
   {"a":"sched","s":"RWR..","labels":[{"t":"R"|"W","l":label},...],  pause points in the order released
    "o1":{probe:version}, "o2":{probe:version},   what the reader saw, first and second evaluation
    "fin":{probe:version},                        what a fresh reader sees after both finished
    "pv":{probe:version}, "wres":"ok"|"err"}      model prediction carried along, writer's result *)
EXTENDS KTxn, Json, IOUtils
Rec == ndJsonDeserialize(IOEnv.TRACE)
VARIABLE l
r == Rec[l]

\* ---- L1
\* ... also for a reader that begins after the writer's commit has returned (fin): it must not see the
\* new entries together with old settings (or the reverse)
L1Line == SnapshotConsistent(r.o1) /\ RepeatableRead(r.o1, r.o2) /\ SnapshotConsistent(r.fin)
L1Sig  == IF ~RepeatableRead(r.o1, r.o2) THEN "not-repeatable"
          ELSE IF ~SnapshotConsistent(r.fin) THEN "mixed-after-commit" ELSE "mixed-versions"

\* ---- L2: run the released pause points through the step lists of section C
StepOf(steps, lab) == CHOOSE i \in 1..Len(steps) : steps[i].l = lab
Known(steps, lab)  == \E i \in 1..Len(steps) : steps[i].l = lab
RECURSIVE Sim(_, _, _, _)
\* labs: remaining labels; pub / rd: component -> 0/1
Sim(labs, i, pub, rd) ==
  IF i > Len(labs) THEN rd
  ELSE LET x == labs[i] IN
       IF x.t = "R" /\ Known(ReaderSteps, x.l)
       THEN LET cs == ReaderSteps[StepOf(ReaderSteps, x.l)].c
            IN  Sim(labs, i + 1, pub, [c \in SnapComps |-> IF c \in cs THEN pub[c] ELSE rd[c]])
       ELSE IF x.t = "W" /\ Known(WriterSteps, x.l)
       THEN LET cs == WriterSteps[StepOf(WriterSteps, x.l)].c
            IN  Sim(labs, i + 1, [c \in SnapComps |-> IF c \in cs THEN 1 ELSE pub[c]], rd)
       ELSE Sim(labs, i + 1, pub, rd)
Zero == [c \in SnapComps |-> 0]
\* the labels of each thread appear in program order (a prefix of the step list)
Sub(labs, t) == SelectSeq(labs, LAMBDA x : x.t = t)
InOrder(labs, t, steps) == LET s == Sub(labs, t) IN
                           Len(s) <= Len(steps) /\ \A i \in 1..Len(s) : s[i].l = steps[i].l
L2Line == /\ r.wres = "ok"
          /\ InOrder(r.labels, "R", ReaderSteps) /\ Len(Sub(r.labels, "R")) = Len(ReaderSteps)
          /\ InOrder(r.labels, "W", WriterSteps)
          /\ r.o1 = ProbeVersion(Sim(r.labels, 1, Zero, Zero))
          /\ \A p \in DOMAIN r.fin : r.fin[p] = 1

Init == l = 1
Next == l <= Len(Rec) /\ l' = l + 1
Spec == Init /\ [][Next]_l
Judge == l <= Len(Rec) =>
           /\ (L1Line \/ PrintT(<<"L1FAIL", "C06", l, L1Sig>>))
           /\ (L2Line \/ PrintT(<<"L2DRIFT", "C06", l>>))
Consumed == TLCGet("stats").distinct = Len(Rec) + 1 \/ PrintT(<<"NOTCONSUMED", TLCGet("stats").distinct, Len(Rec)>>)
=============================================================================
