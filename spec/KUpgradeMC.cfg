SPECIFICATION Spec
PROPERTY UpgradeOk
CHECK_DEADLOCK FALSE
