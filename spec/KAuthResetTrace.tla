---------------------------- MODULE KAuthResetTrace ----------------------------
(* Validates observed reset-link histories of the REAL IdmServer (C37).  Lines:
   {"a":"reset","ttls":[..], ...}                              fresh account, links created at time 0
   {"a":"exchange"|"commit"|"cancel","i":link,"k":session,"t":T,"res":"ok"|"err",
    "links":[{"st":..,"sid":..},..],"cred":K}
   links/cred: projection of the stored account AFTER the step (sid = index of the in-progress
   session in exchange order, cred = session whose password is stored, 0 = original).        *)
EXTENDS KAuthReset, Json, IOUtils, TLC
CONSTANTS SessTtl
Rec == ndJsonDeserialize(IOEnv.TRACE)
VARIABLES l, M, hist, cred, exps
StepOf(r) == [a |-> r.a, i |-> r.i, k |-> r.k, t |-> r.t, res |-> r.res]
Links(r) == [i \in 1..Len(r.links) |-> [st |-> r.links[i].st, sid |-> r.links[i].sid]]
LineL1(r) == L1Step(hist, exps, StepOf(r), cred, r.cred)
LineL2(r) == LET o == L2Do(M, StepOf(r), SessTtl) IN o.res = r.res /\ ProjLinks(o.M) = Links(r) /\ o.M.cred = r.cred
Init == l = 1 /\ M = M0(<<1>>) /\ hist = <<>> /\ cred = 0 /\ exps = <<1>>
Next == /\ l <= Len(Rec)
        /\ l' = l + 1
        /\ LET r == Rec[l] IN
           IF r.a = "reset"
           THEN M' = M0(r.ttls) /\ hist' = <<>> /\ cred' = 0 /\ exps' = r.ttls
           ELSE /\ M' = L2Do(M, StepOf(r), SessTtl).M
                /\ hist' = Append(hist, StepOf(r)) /\ cred' = r.cred /\ exps' = exps
Judge == (l <= Len(Rec) /\ Rec[l].a # "reset") =>
           /\ (LineL1(Rec[l]) \/ PrintT(<<"L1FAIL", "C37", l, Rec[l].a \o "-" \o Rec[l].res>>))
           /\ (LineL2(Rec[l]) \/ PrintT(<<"L2DRIFT", "C37", l>>))
Consumed == TLCGet("stats").distinct = Len(Rec) + 1 \/ PrintT(<<"NOTCONSUMED", TLCGet("stats").distinct, Len(Rec)>>)
=============================================================================
