CONSTANTS
  MaxProfiles = 2
  Worlds = "big"
  Big = FALSE
  Quick = FALSE
  Shard = "exists"
INIT Init
NEXT Next
INVARIANT Inv
INVARIANT Arms
CHECK_DEADLOCK FALSE
