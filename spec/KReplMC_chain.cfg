\* 3 replicas, 1 entry, 2 sessions: the chain schedule (C08 hypothesis)
CONSTANTS
  N = 3
  Ids = {1}
  NewIds = {}
  Sids = {1, 2}
  MaxTs = 2
  MaxRepl = 3
  MaxWrites = 2
  RecycleAge = 0
  Window = 0
  MergeRestamp = TRUE
  NoSkew = TRUE
  ArmQuota = 0
  EnableRename = FALSE
  EnableClear = FALSE
INIT Init
NEXT Next
VIEW View
INVARIANT InvConvergedButSessions
INVARIANT InvConvergedSessions
CHECK_DEADLOCK FALSE
