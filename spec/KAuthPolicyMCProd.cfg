CONSTANTS
  MaxPriv = 3600
  MaxSess = 2000000000
  MfaMin = 10
  SfaMin = 15
  MaxLen = 128
  Mfa = 10
  N = 2
  PeDom = {5000}
  SeDom = {3600}
  MlDom = {12, 20}
  CtDom = {0, 10}
INIT InitProd
NEXT Next
INVARIANT Inv
CHECK_DEADLOCK FALSE
