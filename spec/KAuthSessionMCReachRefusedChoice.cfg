CONSTANTS
  MaxLen = 5
SPECIFICATION Spec
INVARIANT ReachRefusedChoice
CHECK_DEADLOCK FALSE
