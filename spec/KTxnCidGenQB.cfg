CONSTANTS
  CommitOrder = "publish_first"
  NanoMax = 1000000000
  Secs = {0}
  Nanos = {0, 1, 2}
  Depth = 4
  Emit = TRUE
  MaxInit = 1
  MaxBare = 0
  NoRR = TRUE
INIT Init
NEXT Next
INVARIANT L1CidFresh
INVARIANT EmitCase
CHECK_DEADLOCK FALSE
