---------------------------- MODULE KOAuth2Trace ----------------------------
(* C38: validates observations of the REAL check_oauth2_authorisation / check_oauth2_authorise_permit /
   check_oauth2_token_exchange (one ndjson line per authorisation request) against the property
   (AuthzL1); reports lines the transcription (Authorise) does not explain as L2 drift.
   Line shape (written by kv-oauth c38):
   {"a":"authz","n":N,"case":{...concrete cfg/req, for replay...},
    "f":{"type","lh","pkce_disable","consent","reg":[{"s":url,"scheme":..}],"smap":{g:[..]},"sup":{g:[..]},
         "u":normalised request url,"host","hl":[labels of host],"scheme","ident":"none|anon|user","groups":[..],
         "prevset":BOOL,"prevscopes":[..],"scopes":[..],"pkce":"none|s256|plain","prompt":".."},
    "res":"code|consent|authreq|reauth|err:..","permit":"ok|err:..|na","code":BOOL,"xchg":"ok|fail:..|na","granted":[..]}
   Lines with "a":"skip" (a configuration the server itself refused) carry no observation. *)
EXTENDS KOAuth2, Json, IOUtils
Rec == ndJsonDeserialize(IOEnv.TRACE)
VARIABLE l

\* "Real loopback" is judged HERE, on the logged host string (normalised by the url crate) and its
\* dot-separated labels `hl` (a mechanical split done by the harness): exactly the name localhost, an
\* IPv4 literal in 127.0.0.0/8, or the IPv6 literal ::1.  Nothing else (notlocalhost, app.localhost,
\* localhost.evil.example, 127.0.0.1.evil.example, 128.0.0.1, [::2], ...) is loopback.
DecOctets == {ToString(n) : n \in 0..255}
IsLoopbackHost(host, hl) ==
  \/ host = "localhost"
  \/ host = "[::1]"
  \/ (Len(hl) = 4 /\ hl[1] = "127" /\ \A i \in 1..4 : hl[i] \in DecOctets)
\* Scope strings with invalid syntax used by the generators (L2 only).
KnownBadScopes == {"bad!scope", "-lead", "trail-", "sp@ce"}

HeldBy(map, groups) == UNION {Range(map[g]) : g \in (DOMAIN map) \cap groups}

FactsOf(r) ==
  LET f      == r.f
      regs   == Range(f.reg)
      inreg  == \E x \in regs : x.s = f.u
      web    == f.scheme \in {"http", "https"}
      groups == Range(f.groups)
      scopes == Range(f.scopes)
      sup    == HeldBy(f.sup, groups)
  IN [type |-> f.type, lh |-> f.lh,
      pkceReq |-> (f.type = "public" \/ ~f.pkce_disable),
      consentOn |-> (f.type = "public" \/ f.consent),
      secureReq |-> (\E x \in regs : x.scheme = "https"),
      uReg |-> (inreg /\ web), uApp |-> (inreg /\ ~web),
      uLoop |-> IsLoopbackHost(f.host, f.hl), uHttps |-> (f.scheme = "https"),
      pkce |-> f.pkce,
      prompt |-> f.prompt,
      ident |-> f.ident,
      scopes |-> scopes, bad |-> scopes \cap KnownBadScopes,
      avail |-> HeldBy(f.smap, groups), sup |-> sup,
      prevEq |-> (f.prevset /\ Range(f.prevscopes) = scopes \cup sup)]

ObsOfLine(r) == [code |-> r.code, res |-> r.res, xchg |-> (IF r.xchg = "ok" THEN "ok" ELSE IF r.xchg = "na" THEN "na" ELSE "fail"),
                 granted |-> Range(r.granted)]

LineL1(r) == r.a # "authz" \/ AuthzL1(FactsOf(r), ObsOfLine(r))
LineSig(r) == AuthzL1Clause(FactsOf(r), ObsOfLine(r))

\* L2: the transcription predicts the result class, and (when a code results) permit ok, exchange ok, scopes.
LineL2(r) ==
  r.a # "authz" \/
  LET f == FactsOf(r)
      p == Authorise(f)
      \* "consent"/"login"/"select_account" prompts are not distinguished by the decision, except login
      okres == p.res = r.res
  IN  /\ okres
      /\ (r.res = "consent" => r.permit = "ok" /\ Range(r.cscopes) = p.granted)
      /\ (r.res \in {"code", "consent"} => r.code /\ r.xchg = "ok" /\ Range(r.granted) = p.granted)
      /\ (r.res \notin {"code", "consent"} => ~r.code)

Init == l = 1
Next == l <= Len(Rec) /\ l' = l + 1
Spec == Init /\ [][Next]_l

Judge == l <= Len(Rec) =>
           /\ (LineL1(Rec[l]) \/ PrintT(<<"L1FAIL", "C38", l, LineSig(Rec[l])>>))
           /\ (LineL2(Rec[l]) \/ PrintT(<<"L2DRIFT", "C38", l>>))
Consumed == TLCGet("stats").distinct = Len(Rec) + 1 \/ PrintT(<<"NOTCONSUMED", TLCGet("stats").distinct, Len(Rec)>>)
=============================================================================
