-------------------------------- MODULE KWire --------------------------------
(***************************************************************************)
(* Replication wire framing (property C14): a byte stream is a             *)
(* concatenation of frames  <Hdr-byte big-endian length> o body.           *)
(*                                                                         *)
(* L0  frames, stream offsets, decode results                              *)
(* L1  what a correct framing layer must answer after `fed` bytes arrived, *)
(*     independent of how they were chunked                                *)
(* L2  transcription of decode_length_checked_json                         *)
(*     (server/core/src/repl/codec.rs) on the receive buffer               *)
(***************************************************************************)
EXTENDS Naturals, Sequences

\* ----------------------------- L0 ---------------------------------------
(* A frame is [len |-> declared body length, blen |-> body bytes really written, m |-> message id].
   Well-formed frames have len = blen; len = 0 and len > Max are the poisoned ones.
   A decode result is "none" (need more bytes), "empty" / "large" (rejected), or a message id. *)
FrameSize(Hdr, f) == Hdr + f.blen
RECURSIVE Offset(_, _, _)
Offset(Hdr, frames, k) == IF k = 0 THEN 0 ELSE Offset(Hdr, frames, k - 1) + FrameSize(Hdr, frames[k])
StreamLen(Hdr, frames) == Offset(Hdr, frames, Len(frames))

\* ----------------------------- L1 ---------------------------------------
(* `done` frames have been delivered so far, `fed` bytes of the stream have arrived.  The next
   answer of a correct decoder is determined: *)
L1Next(Hdr, Max, frames, done, fed) ==
  IF done >= Len(frames) THEN "none"
  ELSE LET f == frames[done + 1]
           off == Offset(Hdr, frames, done)
       IN IF fed < off + Hdr THEN "none"                    \* header incomplete
          ELSE IF f.len = 0 THEN "empty"                    \* rejected as soon as the header is complete,
          ELSE IF f.len > Max THEN "large"                  \* never buffered while waiting for a body
          ELSE IF fed < off + Hdr + f.len THEN "none"       \* body incomplete
          ELSE f.m                                          \* exactly the next message, in order
\* one observed decode answer is right
L1StepOk(Hdr, Max, frames, done, fed, res) == res = L1Next(Hdr, Max, frames, done, fed)

\* ----------------------------- L2 ---------------------------------------
(* The receive buffer is the window (cons, fed] of the stream.  The decoder reads the first Hdr
   bytes of the buffer as a length: that is the declared length of frame k if the window starts at
   the boundary of frame k, garbage (modelled as a length that fits nothing: Max + 1) otherwise. *)
BoundaryFrame(Hdr, frames, cons) ==
  IF \E k \in 0..(Len(frames) - 1) : Offset(Hdr, frames, k) = cons
  THEN (CHOOSE k \in 0..(Len(frames) - 1) : Offset(Hdr, frames, k) = cons) + 1 ELSE 0
\* returns [res, cons'] : the answer and the new start of the window
L2Decode(Hdr, Max, frames, cons, fed) ==
  LET buflen == fed - cons
      k == BoundaryFrame(Hdr, frames, cons)
      reqlen == IF k = 0 THEN Max + 1 ELSE frames[k].len
  IN IF buflen < Hdr THEN [res |-> "none", cons |-> cons]
     ELSE IF reqlen = 0 THEN [res |-> "empty", cons |-> cons]
     ELSE IF reqlen > Max THEN [res |-> "large", cons |-> cons]
     ELSE IF buflen - Hdr < reqlen THEN [res |-> "none", cons |-> cons]
     \* (the `src.len() == req_len` clear() branch can never be taken: src.len() >= 8 + req_len here)
     ELSE [res |-> frames[k].m, cons |-> cons + Hdr + reqlen]
=============================================================================
