CONSTANTS
  Sups <- TSups
  Acts <- TActs
  Root = "s0"
  Eager = TRUE
INIT Init
NEXT Next
INVARIANT Judge
POSTCONDITION Consumed
CHECK_DEADLOCK FALSE
