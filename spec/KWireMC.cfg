CONSTANTS
  Hdr = 8
  Max = 12
  Lens = {6, 9, 12}
  MaxFrames = 2
  MaxChunks = 4
INIT Init
NEXT Next
INVARIANTS Complete Rejected Prefix
POSTCONDITION Census
CHECK_DEADLOCK FALSE
