CONSTANTS
  MaxDepth = 2
  ReqPool <- MCReqPool
INIT Init
NEXT Next
INVARIANT L1Inv
PROPERTY L1Step
CHECK_DEADLOCK FALSE
