CONSTANTS
  MaxLen = 5
SPECIFICATION Spec
INVARIANT Inv
CHECK_DEADLOCK FALSE
