CONSTANTS
  Machines = {"mA", "mB"}
  Pws = {"p1", "p2", "p3"}
  Depth = 5
  Hist = TRUE
  NoRollback = TRUE
  Emit = TRUE
INIT Init
NEXT Next
INVARIANT Safe
INVARIANT EmitInv
CHECK_DEADLOCK FALSE
