CONSTANTS
  MaxProfiles = 2
  Worlds = "tiny"
  Big = FALSE
  Quick = TRUE
  Shard = "all"
INIT Init
NEXT Next
INVARIANT Inv
INVARIANT Arms
CHECK_DEADLOCK FALSE
