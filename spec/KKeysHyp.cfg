CONSTANTS
  T = 2
  MaxKeys = 3
  Servers = {"A"}
  ReloadOnCommit = FALSE
INIT Init
NEXT Next
INVARIANT InvVerify
INVARIANT InvSign
INVARIANT InvSignNow
INVARIANT InvNoUnrevoke
INVARIANT InvMemIsStored
CHECK_DEADLOCK FALSE
