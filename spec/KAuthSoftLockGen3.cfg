CONSTANTS
  D = 3
  Day = 86400
  Step = 30
  PwPrefix = {0, 2, 3, 8, 9, 24, 25, 99, 100}
  TotpPrefix = {0, 1, 2, 3}
  Rich = FALSE
SPECIFICATION Spec
INVARIANT Emit
CHECK_DEADLOCK FALSE
