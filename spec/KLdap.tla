------------------------------- MODULE KLdap -------------------------------
(***************************************************************************)
(* The LDAP gateway of kanidm (property C40).                              *)
(*                                                                         *)
(* L0  vocabulary: observation records of one LDAP operation on one        *)
(*     connection (the JSON lines the driver kv-oauth c40 logs), the LDAP  *)
(*     virtual attribute map, hidden classes.                              *)
(* L1  the property, clause by clause, as predicates over ONE observation  *)
(*     (plus the previous one for the database chain, plus `cb` = how the  *)
(*     token in hand was obtained).  Exactly as permissive as the          *)
(*     statement; one-sided where the statement is.                        *)
(* L2  implementation-shaped: bind_target_from_bind_dn / auth_ldap /       *)
(*     application_auth_ldap / token_auth_ldap decision table, do_op       *)
(*     dispatch with core's connection handling, do_search's attribute     *)
(*     request mapping and Entry::to_ldap.                                 *)
(*                                                                         *)
(* Observation record fields (all lines): a (action), and for operations   *)
(*   dg0, dg1 : index of the digest of the FULL database dump before/after *)
(*   dl       : delayed actions the server ran after the operation         *)
(*   tk, tu   : LdapSession variant / account of the token in hand before  *)
(* bind   : k kind (anon|anonname|tok|unix|app|bad) sec (right|wrong|empty|*)
(*          expired) flag (on|off|unset, read from the domain entry) mem   *)
(*          (account memberof contains the application's linked group,     *)
(*          read from the database) hpw ex res (bound|invalid|err|panic)   *)
(*          eid sc (effective identity entry, scope) ns nu (new session)   *)
(* search : bk (dom|app|root|other) scp (base|one|sub|chi) req kall kreq   *)
(*          res ents ab eid sc nres nat ares anon                          *)
(*          ents/anon: sequences of [dn, at]; nat: [dn, u, at, c]          *)
(* compare: res (true|false|nosuch|err) ares ab                            *)
(* whoami : res (ok|operr)      unbind: res (closed)     wop: op res       *)
(* cfg / reset : harness administration, field dg = digest after it        *)
(***************************************************************************)
EXTENDS Naturals, Sequences, FiniteSets, TLC

\* ----------------------------- L0 ---------------------------------------
AnonUuid      == "00000000-0000-0000-0000-ffffffffffff"
DomainUuid    == "00000000-0000-0000-0000-ffffff000025"
HiddenClasses == {"classtype", "attributetype", "access_control_profile"}
MaxQueryAttrs == 48
PwKinds       == {"unix", "app"}          \* binds with a username and a password
Range(s)      == {s[i] : i \in DOMAIN s}

\* The LDAP virtual attribute map (ldap_vattr_map, proto/src/constants.rs strings): LDAP name -> kanidm
\* attribute; identity on everything else.  Note "pwdChangedTime" is camel-case in the code while requests
\* are lower-cased before the lookup, so the lower-case spelling maps to itself.
Kani(a) ==
  CASE a \in {"cn", "uid", "entrydn", "dn"} -> "name"
    [] a = "gecos" -> "displayname"
    [] a \in {"email", "emailaddress", "emailalternative", "emailprimary", "mail;alternative", "mail;primary"} -> "mail"
    [] a = "entryuuid" -> "uuid"
    [] a \in {"keys", "sshpublickey"} -> "ssh_publickey"
    [] a = "objectclass" -> "class"
    [] a = "uidnumber" -> "gidnumber"
    [] a = "homedirectory" -> "uuid"
    [] a = "pwdChangedTime" -> "pwd_changed_time"
    [] OTHER -> a

\* LDAP attribute types that are synthesised from the DN / uuid, not from a readable attribute
Special    == {"dn", "entrydn", "homedirectory"}
Selectors  == {"*", "+", "1.1"}
ReqNames(req) == Range(req) \ Selectors
ReqClass(req) ==
  IF Len(req) = 0 \/ "*" \in Range(req) \/ "+" \in Range(req) THEN "all"
  ELSE IF req = <<"1.1">> THEN "none"
  ELSE "some"

IsHidden(e)  == Range(e.c) \cap HiddenClasses # {}
Dns(es)      == {es[i].dn : i \in DOMAIN es}

\* ----------------------------- L1 ---------------------------------------
\* (i) no LDAP operation changes the database projection
L1DbOp(r)       == r.dg1 = r.dg0
L1DbChain(r, p) == r.dg0 = (IF p.a \in {"reset", "cfg"} THEN p.dg ELSE p.dg1)

\* (ii) a successful password bind yields the anonymous entry as effective identity, read-only
\*      ("err" = the session does not validate at all: no rights, allowed)
L1PwBindAnon(r) == (r.k \in PwKinds /\ r.res = "bound") => (r.eid \in {AnonUuid, "err"} /\ r.sc \in {"ro", "err"})

\* every entry / attribute type of a is also in b
SubEntries(a, b) == \A i \in DOMAIN a : \E j \in DOMAIN b : b[j].dn = a[i].dn /\ Range(a[i].at) \subseteq Range(b[j].at)
\* (ii) a search on a password-bound connection runs as the anonymous entry and returns no more than the
\*      identical search on a fresh anonymous bind
L1PwSearchIdent(r, cb) == (cb \in PwKinds /\ r.res = "ok" /\ r.bk # "root") => (r.eid \in {AnonUuid, "err"} /\ r.sc # "rw")
L1PwSearchReads(r, cb) == (cb \in PwKinds /\ r.res = "ok") => (Len(r.ents) = 0 \/ (r.ares = "ok" /\ SubEntries(r.ents, r.anon)))
\* (ii) compare reveals no more than to anonymous
L1PwCompare(r, cb) == cb \in PwKinds => /\ (r.res = "true"  => r.ares = "true")
                                        /\ (r.res = "false" => r.ares \in {"true", "false"})

\* (iii) unix password binds are refused when the domain disables them
L1UnixFlag(r)   == (r.k = "unix" /\ r.flag = "off") => r.res # "bound"
\* (iv) application binds require membership of the application's linked group
L1AppMember(r)  == (r.k = "app" /\ r.res = "bound") => r.mem

\* (v) entries: LDAP result = native result of the same identity / filter / mapped request, minus hidden
\*     classes, restricted by the scope at the base DN.  A native refusal counts as the empty result.
Judgeable(r)   == r.res = "ok" /\ r.bk # "root" /\ r.nres \notin {"skip", "iderr"}
NatVisible(r)  == {i \in DOMAIN r.nat : ~IsHidden(r.nat[i])}
ScopeSel(r)    ==
  CASE r.scp = "sub"            -> NatVisible(r)
    [] r.scp \in {"one", "chi"} -> {i \in NatVisible(r) : r.nat[i].u # DomainUuid}
    [] OTHER                    -> {i \in NatVisible(r) : r.nat[i].u = DomainUuid}
\* The clause speaks of "the same filter": it is judged where the gateway adds nothing but the hidden-class term
\* (subtree) or that and the negative domain-entry term (one-level / children) at the base DN.  With an entry
\* DN as base, or scope base, the gateway adds a POSITIVE equality term to the filter; comparing that with the
\* native search of the caller's filter alone would assume the native engine is monotone in added conjuncts,
\* which is a property of the filter engine (C01/C41), not of the gateway: those cases are L2 (ScopedSubset).
L1SearchEntries(r) ==
  (Judgeable(r) /\ r.bk \in {"dom", "app"} /\ r.scp \in {"sub", "one", "chi"}) =>
     Dns(r.ents) = {r.nat[i].dn : i \in ScopeSel(r)}
ScopedSubset(r) ==
  (Judgeable(r) /\ ~(r.bk \in {"dom", "app"} /\ r.scp \in {"sub", "one", "chi"})) =>
     Dns(r.ents) \subseteq {r.nat[i].dn : i \in (IF r.bk \in {"dom", "app"} THEN ScopeSel(r) ELSE NatVisible(r))}

\* (v) readable attributes agree through the attribute map
LMapped(at)    == {Kani(a) : a \in Range(at) \ Special}
ExpectAttrs(req, nat_at) ==
  CASE ReqClass(req) = "all"  -> Range(nat_at)
    [] ReqClass(req) = "none" -> {}
    [] OTHER                  -> Range(nat_at) \cap {Kani(q) : q \in ReqNames(req) \ Special}
AttrsAgree(req, le, ne) ==
  IF ReqClass(req) = "none" THEN Range(le.at) = {}
  ELSE LMapped(le.at) = ExpectAttrs(req, ne.at)
L1SearchAttrs(r) ==
  Judgeable(r) => \A i \in DOMAIN r.ents : \A j \in DOMAIN r.nat :
                     r.nat[j].dn = r.ents[i].dn => AttrsAgree(r.req, r.ents[i], r.nat[j])

\* ----------------------------- L2 ---------------------------------------
\* bind_target_from_bind_dn + auth_ldap + application_auth_ldap + token_auth_ldap
L2BindRes(r) ==
  CASE r.k = "anon"     -> "bound"
    [] r.k = "anonname" -> "bound"             \* a DN that names the anonymous account binds whatever the password
    [] r.k = "tok"      -> IF r.sec = "right" THEN "bound" ELSE "err"
    [] r.k = "unix"     -> IF ~r.ex THEN "err"
                           ELSE IF r.flag # "off" /\ r.hpw /\ r.sec = "right" THEN "bound" ELSE "invalid"
    [] r.k = "app"      -> IF ~r.ex \/ r.ac = "anonymous" THEN "err"
                           ELSE IF r.mem /\ r.hpw /\ r.sec = "right" THEN "bound" ELSE "invalid"
    [] OTHER            -> "err"

\* the session a successful bind creates: <<LdapSession variant, account>>
L2NewSession(r) ==
  CASE r.k \in {"anon", "anonname"} -> <<"unix", AnonUuid>>
    [] r.k \in {"unix", "app"}      -> <<"unix", r.ac>>        \* application binds also yield UnixBind(account)
    [] r.k = "tok"                  -> <<IF r.tokuat THEN "uat" ELSE "apit", r.ac>>
    [] OTHER                        -> <<"none", "">>

\* effective identity of a session (validate_ldap_session / process_ldap_uuid_to_identity)
L2Ident(s, u) == IF s = "unix" THEN AnonUuid ELSE u

\* do_search: mapped request handed to the backend
L2KAll(req)  == ReqClass(req) \in {"all", "none"}
L2KReq(req)  == {Kani(q) : q \in ReqNames(req)}
\* Entry::to_ldap: attribute types returned for a reduced entry with attribute names `red`
AllVattrs    == {"cn", "email", "emailaddress", "dn", "emailalternative", "emailprimary", "entrydn", "entryuuid", "keys",
                 "mail;alternative", "mail;primary", "objectclass", "sshpublickey", "uidnumber", "uid", "gecos",
                 "homedirectory", "pwd_changed_time"}
L2LAttrs(req) ==
  CASE req = <<"1.1">>         -> {}
    [] "+" \in Range(req)      -> AllVattrs
    [] ReqClass(req) = "all"   -> {q \in ReqNames(req) : Kani(q) # q}
    [] OTHER                   -> ReqNames(req)
L2ToLdap(req, red) ==
  (IF ReqClass(req) = "all" THEN red ELSE {}) \cup {q \in L2LAttrs(req) : q \in Special \/ Kani(q) \in red}
=============================================================================
