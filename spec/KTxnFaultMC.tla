---------------------------- MODULE KTxnFaultMC ----------------------------
(* C04 / C05 in the model: the commit step list of KTxn section B is executed for every
   transaction kind with one injected event: nothing, Fail(k) at storage step k, Crash(k) at a
   storage or crash-only step k, or Abandon before commit.  TLC reports which (kind, step) pairs
   leave memory ahead of disk (hypotheses, printed as <<"HYP", kind, step, component>>) and checks
   that nothing else can: data caches are never ahead, disk is never touched by a failed commit,
   a crash recovers to all-old or all-new, and the next identifier is above the committed ones. *)
EXTENDS KTxn
VARIABLES kind,    \* transaction kind
          ev,      \* [t |-> "none" | "fail" | "crash" | "abandon", k |-> step number]
          pc,      \* next step of CommitSteps
          mem,     \* component -> TRUE when the NEW value is what readers get
          disk,    \* TRUE when the database holds the new state (entries, ruv, ts_max together)
          widx,    \* index tables as the open SQL transaction sees them: "old" | "purged" | "empty" | "new"
          didx,    \* index tables as they are durably in the database file
          status   \* "run" | "ok" | "failed" | "abandoned" | "crashed" | "recovered"
vars == <<kind, ev, pc, mem, disk, widx, didx, status>>

Comps == {CommitSteps[i].c : i \in {i \in 1..NSteps : CommitSteps[i].t = "P"}}
AllOld == [c \in Comps |-> FALSE]

Events == {[t |-> "none", k |-> 0], [t |-> "abandon", k |-> 0]}
          \cup {[t |-> "fail", k |-> i] : i \in {i \in 1..NSteps : CommitSteps[i].t = "S"}}
          \cup {[t |-> "crash", k |-> i] : i \in {i \in 1..NSteps : CommitSteps[i].t \in {"S", "C"}}}

Init == /\ kind \in Kinds /\ ev \in Events
        /\ pc = 1 /\ mem = AllOld /\ disk = FALSE /\ widx = "old" /\ didx = "old" /\ status = "run"

Abandon == /\ status = "run" /\ pc = 1 /\ ev.t = "abandon"
           /\ status' = "abandoned" /\ UNCHANGED <<kind, ev, pc, mem, disk, widx, didx>>

Step == /\ status = "run" /\ pc <= NSteps /\ ev.t # "abandon"
        /\ LET s == CommitSteps[pc] IN
           IF ev.k = pc /\ ev.t = "fail" THEN
                \* the storage call returns an error: `?` propagates, write halves are dropped,
                \* the SQLite transaction rolls back
                /\ status' = "failed" /\ widx' = didx /\ UNCHANGED <<pc, mem, disk, didx>>
           ELSE IF ev.k = pc /\ ev.t = "crash" THEN
                /\ status' = "crashed" /\ mem' = AllOld /\ widx' = didx /\ UNCHANGED <<pc, disk, didx>>
           ELSE /\ pc' = pc + 1
                /\ mem' = IF s.t = "P" /\ s.c \in Changed(kind) THEN [mem EXCEPT ![s.c] = TRUE] ELSE mem
                /\ disk' = IF s.c = "sql_commit" THEN TRUE ELSE disk
                \* index purge + rebuild, step by step, inside the SQL transaction; durable only at COMMIT
                /\ widx' = IF ~Reindexing(kind) THEN widx
                           ELSE CASE s.c = "idx_purge"  -> "purged"
                                  [] s.c = "idx_create" -> "empty"
                                  [] s.c = "idl"        -> "new"     \* rebuilt lists flushed
                                  [] OTHER -> widx
                /\ didx' = IF s.c = "sql_commit" THEN widx ELSE didx
                /\ status' = IF pc = NSteps THEN "ok" ELSE "run"
        /\ UNCHANGED <<kind, ev>>

\* restart: everything in memory is rebuilt from the database
Recover == /\ status = "crashed"
           /\ mem' = [c \in Comps |-> disk /\ c \in Changed(kind)]
           /\ status' = "recovered" /\ UNCHANGED <<kind, ev, pc, disk, widx, didx>>

Next == Abandon \/ Step \/ Recover
Spec == Init /\ [][Next]_vars

\* ------------------------------------------------------------------ L1 on the model
Untouched == ~disk /\ \A c \in VisibleComps \cup {"be", "ruv", "idxmeta"} : ~mem[c]
\* the hypothesis of DESIGN section 8 (confirmed on the real code, known finding C04-*):
\* a visible setting was published before the failing storage step
KnownAhead == status = "failed" /\ AheadAt(kind, ev.k) # {}
L1NoTrace == (status \in {"failed", "abandoned"} /\ ~KnownAhead) => Untouched
\* what the known defect cannot explain: disk or the data caches changed by a failed commit
L1Strict  == status \in {"failed", "abandoned"} =>
                /\ ~disk /\ ~mem["be"] /\ ~mem["ruv"] /\ ~mem["idxmeta"]
                /\ {c \in VisibleComps : mem[c]} = (IF status = "failed" THEN AheadAt(kind, ev.k) ELSE {})
\* the failed-commit branch (Step with ev.t = "fail") and the abandon branch as the property states them:
\* EVERY in-memory component a commit publishes (caches, RUV, index metadata, schema, access controls,
\* domain info, OAuth2 / application state, change id, filter cache ...) still has its pre-transaction value.
\* True of the storage-first commit without exception; for the publish-first commit exactly the known
\* defect (components published before the failing storage step) is exempt.
L1AllUntouched == status \in {"failed", "abandoned"} =>
                    {c \in Comps : mem[c]} \subseteq
                       (IF status = "failed" /\ CommitOrder # "storage_first" THEN PublishedBefore(ev.k) ELSE {})
L1Success == status = "ok" => disk /\ \A c \in Changed(kind) \cap Comps : mem[c]
\* C05: recovered state is uniformly old or uniformly new
L1Crash   == status = "recovered" =>
                /\ \A c \in Changed(kind) \cap Comps : mem[c] = disk
                \* the index tables found in the file belong to the same state as the entries
                /\ didx = (IF disk /\ Reindexing(kind) THEN "new" ELSE "old")
\* a failed or abandoned transaction leaves the durable index tables alone as well
L1IdxFail == status \in {"failed", "abandoned"} => didx = "old"

\* ------------------------------------------------------------------ hypotheses for the replay
Hyp == (status = "failed" /\ AheadAt(kind, ev.k) # {}) =>
          \A c \in AheadAt(kind, ev.k) : PrintT(<<"HYP", kind, CommitSteps[ev.k].c, c>>)
=============================================================================
