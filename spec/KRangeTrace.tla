----------------------------- MODULE KRangeTrace -----------------------------
(* Validates observations of the REAL range_diff (one ndjson line per call) against
   the L1 decision table; reports L2 drift separately.  Line shape:
   {"a":"range_diff","n":N,"c":{sK:{min,max}},"s":{...},"res":status,"ok":{...},"lag":{...},"adv":{...}} *)
EXTENDS KRange, Sequences, Json, IOUtils
Rec == ndJsonDeserialize(IOEnv.TRACE)
VARIABLE l

\* JSON objects deserialize to records (functions on strings): use them as maps directly.
AsMap(o) == [x \in DOMAIN o |-> Win(o[x].min, o[x].max)]

LineL1(r) == L1Ok(AsMap(r.c), AsMap(r.s), r.res, AsMap(r.ok))
LineL2(r) == LET m == RangeDiff(AsMap(r.c), AsMap(r.s))
             IN  m.status = r.res /\ m.ok = AsMap(r.ok) /\ m.lag = AsMap(r.lag) /\ m.adv = AsMap(r.adv)

Init == l = 1
Next == l <= Len(Rec) /\ l' = l + 1
Spec == Init /\ [][Next]_l

Judge == l <= Len(Rec) =>
           /\ (LineL1(Rec[l]) \/ PrintT(<<"L1FAIL", "C10", l, "new">>))
           /\ (LineL2(Rec[l]) \/ PrintT(<<"L2DRIFT", "C10", l>>))
Consumed == TLCGet("stats").distinct = Len(Rec) + 1 \/ PrintT(<<"NOTCONSUMED", TLCGet("stats").distinct, Len(Rec)>>)
=============================================================================
