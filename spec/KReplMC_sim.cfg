\* simulation config: longer complete behaviours exported with Export
CONSTANTS
  N = 3
  Ids = {1, 2}
  NewIds = {3}
  Sids = {1, 2}
  MaxTs = 8
  MaxRepl = 7
  MaxWrites = 6
  RecycleAge = 0
  Window = 0
  MergeRestamp = TRUE
  NoSkew = TRUE
  ArmQuota = 0
  EnableRename = FALSE
  EnableClear = FALSE
INIT Init
NEXT Next
INVARIANT Export
CHECK_DEADLOCK FALSE
