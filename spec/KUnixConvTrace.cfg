INIT Init
NEXT Next
INVARIANT Judge
POSTCONDITION Consumed
CHECK_DEADLOCK FALSE
