------------------------------- MODULE KWireMC -------------------------------
(* Exhaustive: every sequence of <= MaxFrames frames over the body lengths in Lens (real JSON lengths
   of the replication messages, plus the poisoned declared lengths 0 and Max+1), every way the byte
   stream can arrive in <= MaxChunks reads, the decoder called after every read until it asks for more
   (what tokio_util::codec::FramedRead does).  L2 (buffer transcription) against L1. *)
EXTENDS KWire, TLC
CONSTANTS Hdr, Max, Lens, MaxFrames, MaxChunks
VARIABLES frames, fed, cons, done, dead, chunks, idle

Kinds == {[len |-> n, blen |-> n] : n \in Lens} \cup {[len |-> 0, blen |-> 0], [len |-> Max + 1, blen |-> 1]}
MkFrames(s) == [i \in DOMAIN s |-> [len |-> s[i].len, blen |-> s[i].blen, m |-> "m" \o ToString(i)]]
Init == /\ frames \in {MkFrames(s) : s \in UNION {[1..n -> Kinds] : n \in 1..MaxFrames}}
        /\ fed = 0 /\ cons = 0 /\ done = 0 /\ dead = FALSE /\ chunks = 0 /\ idle = TRUE
Total == StreamLen(Hdr, frames)
\* the last permitted read must bring the rest of the stream
Feed == /\ idle /\ ~dead /\ fed < Total /\ chunks < MaxChunks
        /\ \E n \in 1..(Total - fed) :
             /\ (chunks = MaxChunks - 1 => n = Total - fed)
             /\ fed' = fed + n
        /\ chunks' = chunks + 1 /\ idle' = FALSE
        /\ UNCHANGED <<frames, cons, done, dead>>
Count(r) == TLCSet(r, TLCGet(r) + 1)
\* census registers: 1 delivered, 2 empty, 3 large, 4 none with a partial header, 5 none with a partial body, 6 none on an empty buffer
Class(d) == CASE d.res = "empty" -> 2 [] d.res = "large" -> 3
              [] d.res = "none" -> (IF fed - cons = 0 THEN 6 ELSE IF fed - cons < Hdr THEN 4 ELSE 5)
              [] OTHER -> 1
Decode == /\ ~idle /\ ~dead
          /\ LET d == L2Decode(Hdr, Max, frames, cons, fed)
             IN /\ Count(Class(d))
                /\ L1StepOk(Hdr, Max, frames, done, fed, d.res) \/ (PrintT(<<"L2vsL1", frames, cons, fed, done, d>>) /\ FALSE)
                /\ cons' = d.cons
                /\ done' = IF d.res \in {"none", "empty", "large"} THEN done ELSE done + 1
                /\ dead' = (d.res \in {"empty", "large"})
                /\ idle' = (d.res = "none")
          /\ UNCHANGED <<frames, fed, chunks>>
Next == Feed \/ Decode
\* everything that was written before the first poisoned frame is delivered once the stream has fully arrived
FirstBad == IF \E k \in DOMAIN frames : frames[k].len = 0 \/ frames[k].len > Max
            THEN CHOOSE k \in DOMAIN frames : (frames[k].len = 0 \/ frames[k].len > Max) /\ \A j \in 1..(k - 1) : frames[j].len # 0 /\ frames[j].len <= Max
            ELSE Len(frames) + 1
Complete == (fed = Total /\ idle /\ ~dead) => (done = Len(frames) /\ FirstBad = Len(frames) + 1 /\ cons = fed)
Rejected == dead => done = FirstBad - 1
Prefix == done <= FirstBad - 1
ASSUME \A r \in 1..6 : TLCSet(r, 0)
Census == PrintT(<<"CENSUS", TLCGet(1), TLCGet(2), TLCGet(3), TLCGet(4), TLCGet(5), TLCGet(6)>>)
=============================================================================
