--------------------------------- MODULE KSpn ---------------------------------
(***************************************************************************)
(* Security principal names (property C22).                                 *)
(*                                                                         *)
(* L0  s = [ids, lv, named, name, spn, dom]                                 *)
(*       named   the ids that are accounts or groups                        *)
(*       name[x] its name;  spn[x] the SET of stored spn values, each a     *)
(*               pair <<name part, domain part>>;  dom: current domain name  *)
(* L1  SpnOk: every live account or group has exactly one spn = name@dom    *)
(* L2  transcription of plugins/spn.rs: spn generated in pre-create and     *)
(*     pre-modify from the transaction's domain name; a change of           *)
(*     domain_name on the domain entry reloads the domain info and purges   *)
(*     spn on every LIVE entry that has one (internal modify over pres spn, *)
(*     hidden entries ignored) so that pre-modify regenerates it; recycled  *)
(*     entries keep the old value until revive, whose modify path           *)
(*     regenerates it.  Name uniqueness (attrunique) refuses a create /     *)
(*     rename / revive that collides with a live entry.                     *)
(***************************************************************************)
EXTENDS Naturals, FiniteSets, TLC

\* ----------------------------------- L1 -----------------------------------
SpnOkAt(s, x) == s.spn[x] = {<<s.name[x], s.dom>>}
SpnOk(s) == \A x \in s.named : s.lv[x] = "live" => SpnOkAt(s, x)

\* ----------------------------------- L2 -----------------------------------
Taken(s, n, x) == \E y \in s.named \ {x} : s.lv[y] = "live" /\ s.name[y] = n
R(st, res) == [st |-> st, res |-> res]

Create(s, x, n) ==
  IF s.lv[x] # "absent" \/ Taken(s, n, x) THEN R(s, "err")
  ELSE R([s EXCEPT !.lv[x] = "live", !.name[x] = n, !.spn[x] = {<<n, s.dom>>}], "ok")
Rename(s, x, n) ==
  IF s.lv[x] # "live" THEN R(s, "ok")            \* internal modify without a match: ok, nothing happens
  ELSE IF Taken(s, n, x) THEN R(s, "err")
  ELSE R([s EXCEPT !.name[x] = n, !.spn[x] = {<<n, s.dom>>}], "ok")
\* any other modify of a live entry passes through pre-modify as well
Touch(s, x) == IF s.lv[x] = "live" THEN [s EXCEPT !.spn[x] = {<<s.name[x], s.dom>>}] ELSE s
DomainRename(s, d) ==
  IF d = s.dom THEN s
  ELSE [s EXCEPT !.dom = d,
                 !.spn = [x \in s.ids |-> IF s.lv[x] = "live" /\ x \in s.named /\ s.spn[x] # {} THEN {<<s.name[x], d>>} ELSE @[x]]]
Delete(s, D) == [s EXCEPT !.lv = [x \in s.ids |-> IF x \in D /\ @[x] = "live" THEN "recycled" ELSE @[x]]]
\* ONE revive over the ids X0: all recycled ones among them or none (a name clash refuses the operation)
Revive(s, X0) ==
  LET X == {x \in X0 \cap s.ids : s.lv[x] = "recycled"}
      clash == \E x \in X \cap s.named :
                 \/ \E y \in s.named \ X : s.lv[y] = "live" /\ s.name[y] = s.name[x]
                 \/ \E y \in (X \cap s.named) \ {x} : s.name[y] = s.name[x]
  IN  IF X = {} THEN R(s, "ok")
      ELSE IF clash THEN R(s, "err")
      ELSE R([s EXCEPT !.lv = [x \in s.ids |-> IF x \in X THEN "live" ELSE @[x]],
                       !.spn = [x \in s.ids |-> IF x \in X \cap s.named THEN {<<s.name[x], s.dom>>} ELSE @[x]]], "ok")
=============================================================================
