CONSTANTS
  CodeLife = 60
  AccessLife = 900
  RefreshLife = 57600
  Grace = 300
INIT Init
NEXT Next
INVARIANT Judge
POSTCONDITION Consumed
CHECK_DEADLOCK FALSE
