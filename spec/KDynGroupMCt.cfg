CONSTANTS
  MaxLen = 6
  Sample = 400
INIT Init
NEXT Next
VIEW View
INVARIANT Soft
CHECK_DEADLOCK FALSE
