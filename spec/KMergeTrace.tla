------------------------------ MODULE KMergeTrace ------------------------------
(* Judges observations of the REAL repl_merge_valueset (driver harness/repl/src/c11.rs): one line per
   family of three views with the 12 results (6 orders x 2 groupings) and the three self-merges. *)
EXTENDS KMerge, Json, IOUtils
Rec == ndJsonDeserialize(IOEnv.TRACE)
VARIABLE l

Elem(list, k) == CHOOSE i \in 1..Len(list) : list[i].id = k
ToMap(list) == [k \in {list[i].id : i \in 1..Len(list)} |->
                  LET e == list[Elem(list, k)] IN [st |-> e.st, v |-> e.v, s |-> e.s]]
ViewsOf(r) == [i \in 1..3 |-> [c |-> i, m |-> ToMap(r.views[i])]]
TrimOf(r)  == <<r.trim[1], r.trim[2]>>
ResSet(r)  == {ToMap(r.res[i].m) : i \in 1..Len(r.res)}

LineL1(r) ==
  LET vs == ViewsOf(r)  t == TrimOf(r) IN
  /\ InWindow(vs, t) => AllEqual(r.kind, ResSet(r))
  /\ \A m \in ResSet(r) : Absorbing(r.kind, vs, t, m) /\ NoInvention(vs, m)
  /\ \A i \in 1..3 : Idempotent(r.kind, vs[i].m, t, ToMap(r.idem[i]))

\* L2: every observed result equals the transcription's result for that order and grouping
LineL2(r) ==
  LET vs == ViewsOf(r)  t == TrimOf(r)  kd == IF r.kind = "oauth2" THEN "session" ELSE r.kind IN
  \A i \in 1..Len(r.res) :
     LET o == <<r.res[i].o[1], r.res[i].o[2], r.res[i].o[3]>> IN
       ToMap(r.res[i].m) = (IF r.res[i].g = "l" THEN LeftFold(kd, vs, o, t) ELSE RightFold(kd, vs, o, t))

Init == l = 1
Next == l <= Len(Rec) /\ l' = l + 1
Judge == l <= Len(Rec) =>
           /\ (LineL1(Rec[l]) \/ PrintT(<<"L1FAIL", "C11", l, Rec[l].kind>>))
           /\ (LineL2(Rec[l]) \/ PrintT(<<"L2DRIFT", "C11", l>>))
Consumed == TLCGet("stats").distinct = Len(Rec) + 1 \/ PrintT(<<"NOTCONSUMED", TLCGet("stats").distinct, Len(Rec)>>)
=============================================================================
