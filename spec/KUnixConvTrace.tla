--------------------------- MODULE KUnixConvTrace ---------------------------
(* C44, overlapping PAM conversations observed on the REAL Resolver (pam_account_authenticate_init / _step called
   separately). L1 uses only the observed results: last = password of the most recent accepted ONLINE-mode step (or
   of the setup login). L2 (KUnix conversation machine) runs alongside and must predict modes and results (drift). *)
EXTENDS KUnix, Json, IOUtils
Rec == ndJsonDeserialize(IOEnv.TRACE)
VARIABLES l, C, last, ok

Init == l = 1 /\ C = ConvInit0(TRUE) /\ last = "none" /\ ok = TRUE

Pred(r) == CASE r.a = "cinit" -> ConvOpen(C, r.c).conv[r.c].mode = r.mode
             [] r.a = "cstep" -> ConvStepRes(C, r.c, r.p) = r.res
             [] r.a = "probe" -> ConvProbe(C, r.p) = r.res
             [] r.a = "setup" -> r.res = "accept"
             [] OTHER -> TRUE
CNext(r) == CASE r.a = "toggle" -> [C EXCEPT !.on = r.on]
              [] r.a = "pwchange" -> [C EXCEPT !.srv = r.p]
              [] r.a = "cinit" -> ConvOpen(C, r.c)
              [] r.a = "cstep" -> ConvStep(C, r.c, r.p)
              [] OTHER -> C
LNext(r) == IF (r.a = "setup" /\ r.res = "accept") \/ (r.a = "cstep" /\ r.mode = "online" /\ r.res = "accept") THEN r.p ELSE last
Next == /\ l <= Len(Rec) /\ l' = l + 1
        /\ IF Rec[l].a = "reset" THEN C' = ConvInit0(TRUE) /\ last' = "none" /\ ok' = TRUE
           ELSE C' = CNext(Rec[l]) /\ last' = LNext(Rec[l]) /\ ok' = (ok /\ Pred(Rec[l]))
Spec == Init /\ [][Next]_<<l, C, last, ok>>

LineL1(r) == CASE r.a = "probe" -> ConvProbeL1(last, r.p, r.res)
               [] r.a = "cstep" -> ConvStepL1(last, r)
               [] OTHER -> TRUE
Sig(r) == IF r.a = "probe" THEN "probe-accept-not-last" ELSE "offline-accept-stale-session"
Judge == (l <= Len(Rec) /\ Rec[l].a # "reset") =>
           /\ (LineL1(Rec[l]) \/ PrintT(<<"L1FAIL", "C44", l, Sig(Rec[l])>>))
           /\ (~ok \/ Pred(Rec[l]) \/ PrintT(<<"L2DRIFT", "C44", l>>))
Consumed == TLCGet("stats").distinct = Len(Rec) + 1 \/ PrintT(<<"NOTCONSUMED", TLCGet("stats").distinct, Len(Rec)>>)
=============================================================================
