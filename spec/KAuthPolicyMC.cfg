CONSTANTS
  MaxPriv = 3600
  MaxSess = 2000000000
  MfaMin = 10
  SfaMin = 15
  MaxLen = 128
  Mfa = 10
  N = 3
  PeDom = {}
  SeDom = {}
  MlDom = {}
  CtDom = {}
INIT InitList
NEXT Next
INVARIANT Inv
CHECK_DEADLOCK FALSE
